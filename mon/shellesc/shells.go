package main

// Oracle (1): the real shells. A script
//
//	<argvdump> <esc1> <esc2> … <esc500> E
//	<argvdump> <esc501> … E
//
// is written to a file (the words may contain newlines and invalid UTF-8) and executed by
// dash / bash / bash --posix with a minimal environment in a fresh working directory that
// contains a few files. argvdump prints the argv it received, NUL-terminated. Required:
// stdout == the inputs (each line closed by the sentinel word "E"), stderr empty, exit status 0,
// the working directory unchanged (no canary, no other new file).

import (
	"bytes"
	"errors"
	"fmt"
	"os"
	"os/exec"
	"path/filepath"
	"regexp"
	"sort"
	"strings"
	"syscall"
	"time"
)

const (
	homePlain = "/vhome/plain"
	homeSpace = "/vhome/sp ace"
	sentinel  = "E"
	perLine   = 500
)

type shellCfg struct {
	Shell  string `json:"shell"`  // dash | bash | bash-posix
	Locale string `json:"locale"` // C | C.UTF-8
	Home   string `json:"home"`
	// thorough tier: where on the command line the words stand, and shell settings around them
	Ctx  string `json:"ctx,omitempty"`  // "" (arguments of argvdump) | tab | sh-c | eval | for | var | subst | herestr
	Opts string `json:"opts,omitempty"` // "" | ifs-odd | ifs-empty | set-f | set-u | set-fu
	Dir  string `json:"dir,omitempty"`  // "" (5 files) | rich (240 files named after the special characters)
}

func (c shellCfg) String() string {
	s := c.Shell + "/" + c.Locale + "/HOME=" + c.Home
	if c.Ctx != "" {
		s += "/ctx=" + c.Ctx
	}
	if c.Opts != "" {
		s += "/" + c.Opts
	}
	if c.Dir != "" {
		s += "/dir=" + c.Dir
	}
	return s
}

// label of the context part only (evidence)
func (c shellCfg) ctxLabel() string {
	l := c.Ctx
	if l == "" {
		l = "args"
	}
	if c.Opts != "" {
		l += "+" + c.Opts
	}
	if c.Dir != "" {
		l += "+dir-" + c.Dir
	}
	return l
}

// HOME values of the thorough tier (tilde form): $HOME/rest must arrive whatever HOME contains
var extraHomes = []string{"/", "/vh/", "/vh *'\"$PWD;`touch canary`#~\\ x", "/vh\n\xff\xc3 \t$(touch canary)"}

// contexts of the thorough tier; every one is crossed with the 3 shells x 2 locales (x 2 HOMEs)
var ctxVariants = []shellCfg{
	{Opts: "ifs-odd"}, {Opts: "ifs-empty"}, {Opts: "set-f"}, {Opts: "set-u"}, {Dir: "rich"}, {Dir: "rich", Opts: "set-fu"},
	{Ctx: "tab"}, {Ctx: "sh-c"}, {Ctx: "eval"}, {Ctx: "eval", Opts: "ifs-odd"}, {Ctx: "for"}, {Ctx: "for", Opts: "ifs-odd"},
	{Ctx: "var"}, {Ctx: "var", Opts: "ifs-odd"}, {Ctx: "var", Dir: "rich"}, {Ctx: "subst"}, {Ctx: "subst", Opts: "set-u"}, {Ctx: "herestr"},
}

// herestrOK: here-strings are a bash feature, and reading them back (read -r -d ”) is
// byte-exact only under LC_ALL=C: under C.UTF-8 bash's read builtin itself loses a 0x01 byte
// inside certain invalid multibyte sequences (reproduced with a 60-byte random word quoted by
// hand, while `cat <<< word` delivers it intact), which would be charged to the escaper.
// The argument contexts have no such read-back step.
func herestrOK(b shellCfg) bool { return b.Shell != "dash" && b.Locale == "C" }

// ctxCfgs crosses the context variants with shells, locales and HOMEs (herestr: bash only).
func ctxCfgs(tildeForm bool) []shellCfg {
	var out []shellCfg
	for vi, v := range ctxVariants {
		for _, b := range cfgsFor(tildeForm) {
			if v.Ctx == "herestr" && !herestrOK(b) {
				continue
			}
			// tilde form: the two standard HOMEs alternate over the variants
			if tildeForm && b.Home != []string{homePlain, homeSpace}[vi%2] {
				continue
			}
			c := v
			c.Shell, c.Locale, c.Home = b.Shell, b.Locale, b.Home
			out = append(out, c)
		}
	}
	if tildeForm {
		for _, h := range extraHomes {
			for _, sh := range shellNames {
				for _, lc := range localeNames {
					out = append(out, shellCfg{Shell: sh, Locale: lc, Home: h})
				}
			}
		}
	}
	return out
}

var shellNames = []string{"dash", "bash", "bash-posix"}
var localeNames = []string{"C", "C.UTF-8"}

// cfgsFor lists the configurations a function is run under.
func cfgsFor(tildeForm bool) []shellCfg {
	var out []shellCfg
	homes := []string{homePlain}
	if tildeForm {
		homes = []string{homePlain, homeSpace}
	}
	for _, sh := range shellNames {
		for _, lc := range localeNames {
			for _, h := range homes {
				out = append(out, shellCfg{Shell: sh, Locale: lc, Home: h})
			}
		}
	}
	return out
}

// the files of the working directory: an unquoted * ? [a] a* would visibly expand
var cwdFiles = []string{".hidden", "a", "aa", "b c", "x.txt"}

// the "rich" directory: a file for every string of length 1 and 2 over the alphabet of the
// exhaustive sweep, so that most short inputs name an existing file and every glob matches
func richFiles() []string {
	var out []string
	for _, a := range alphabet {
		out = append(out, string([]byte{a}))
		for _, b := range alphabet {
			out = append(out, string([]byte{a, b}))
		}
	}
	return out
}

func (e *shellEnv) dirPath(dir string) string {
	if dir == "" {
		return e.cwd
	}
	return e.cwd + "-" + dir
}

func dirFiles(dir string) []string {
	if dir == "rich" {
		return richFiles()
	}
	return cwdFiles
}

type shellEnv struct {
	base     string // temp dir
	bin      string // base/bin: argvdump, touch  (the PATH of the shells)
	cwd      string // base/cwd
	argvdump string
	shells   map[string]string // name -> absolute path
	nscript  int
	runs     int64
	dirReady map[string]bool
}

var errTool = errors.New("tool missing")

var safePath = regexp.MustCompile(`^[A-Za-z0-9_./-]+$`)

func verifRoot() string {
	if r := os.Getenv("VERIF_ROOT"); r != "" {
		return r
	}
	return "/verif"
}

// ensureArgvdump returns the path of the argvdump helper, building it when it is missing.
func ensureArgvdump() (string, error) {
	root := verifRoot()
	p := filepath.Join(root, ".bin", "argvdump")
	if st, err := os.Stat(p); err == nil && st.Mode()&0o111 != 0 {
		return p, nil
	}
	gobin, err := exec.LookPath("go")
	if err != nil {
		gobin = "/usr/local/go/bin/go"
	}
	os.MkdirAll(filepath.Join(root, ".bin"), 0o755)
	tmp := fmt.Sprintf("%s.tmp.%d", p, os.Getpid())
	cmd := exec.Command(gobin, "build", "-o", tmp, "./tools/argvdump")
	cmd.Dir = root
	cmd.Env = append(os.Environ(), "GOFLAGS=-mod=mod", "GOPROXY=off", "GOSUMDB=off", "GOTOOLCHAIN=local")
	if out, err := cmd.CombinedOutput(); err != nil {
		os.Remove(tmp)
		return "", fmt.Errorf("%w: cannot build argvdump: %v: %s", errTool, err, out)
	}
	if err := os.Rename(tmp, p); err != nil {
		return "", fmt.Errorf("%w: %v", errTool, err)
	}
	return p, nil
}

func newShellEnv() (*shellEnv, error) {
	ad, err := ensureArgvdump()
	if err != nil {
		return nil, err
	}
	base, err := os.MkdirTemp("", "shellesc-")
	if err != nil || !safePath.MatchString(base) {
		if err == nil {
			os.RemoveAll(base)
		}
		base, err = os.MkdirTemp("/tmp", "shellesc-")
		if err != nil {
			return nil, err
		}
		if !safePath.MatchString(base) {
			os.RemoveAll(base)
			return nil, fmt.Errorf("%w: no temp directory with a plain name", errTool)
		}
	}
	e := &shellEnv{base: base, bin: filepath.Join(base, "bin"), cwd: filepath.Join(base, "cwd"), shells: map[string]string{}}
	os.MkdirAll(e.bin, 0o755)
	// a private copy of argvdump and a link to touch: the only external commands on PATH
	e.argvdump = filepath.Join(e.bin, "argvdump")
	b, err := os.ReadFile(ad)
	if err == nil {
		err = os.WriteFile(e.argvdump, b, 0o755)
	}
	if err != nil {
		e.close()
		return nil, fmt.Errorf("%w: %v", errTool, err)
	}
	touch := ""
	for _, p := range []string{"/usr/bin/touch", "/bin/touch"} {
		if _, err := os.Stat(p); err == nil {
			touch = p
			break
		}
	}
	if touch == "" {
		e.close()
		return nil, fmt.Errorf("%w: touch", errTool)
	}
	if err := os.Symlink(touch, filepath.Join(e.bin, "touch")); err != nil {
		e.close()
		return nil, err
	}
	for _, name := range []string{"dash", "bash"} {
		p := ""
		for _, d := range []string{"/usr/bin", "/bin", "/usr/local/bin"} {
			if st, err := os.Stat(filepath.Join(d, name)); err == nil && st.Mode()&0o111 != 0 {
				p = filepath.Join(d, name)
				break
			}
		}
		if p == "" {
			e.close()
			return nil, fmt.Errorf("%w: %s", errTool, name)
		}
		e.shells[name] = p
	}
	if err := e.resetCwd(); err != nil {
		e.close()
		return nil, err
	}
	return e, nil
}

func (e *shellEnv) close() { os.RemoveAll(e.base) }

func (e *shellEnv) resetCwd() error { return e.resetDir("") }

func (e *shellEnv) resetDir(dir string) error {
	p := e.dirPath(dir)
	os.RemoveAll(p)
	if err := os.MkdirAll(p, 0o755); err != nil {
		return err
	}
	for _, f := range dirFiles(dir) {
		if err := os.WriteFile(filepath.Join(p, f), nil, 0o644); err != nil {
			return err
		}
	}
	if e.dirReady == nil {
		e.dirReady = map[string]bool{}
	}
	e.dirReady[dir] = true
	return nil
}

// cwdDelta lists what differs from the initial content of the working directory.
func (e *shellEnv) cwdDelta() []string { return e.dirDelta("") }

func (e *shellEnv) dirDelta(dir string) []string {
	ents, err := os.ReadDir(e.dirPath(dir))
	if err != nil {
		return []string{"working directory unreadable: " + err.Error()}
	}
	have := map[string]bool{}
	var delta []string
	for _, en := range ents {
		have[en.Name()] = true
	}
	for _, f := range dirFiles(dir) {
		if !have[f] {
			delta = append(delta, "removed:"+f)
		}
		delete(have, f)
	}
	for f := range have {
		delta = append(delta, "created:"+f)
	}
	sort.Strings(delta)
	return delta
}

type runOut struct {
	stdout, stderr []byte
	exit           int
	timedOut       bool
	err            error
}

// runScript executes a script file content under one configuration.
func (e *shellEnv) runScript(cfg shellCfg, script []byte) runOut {
	e.nscript++
	e.runs++
	path := filepath.Join(e.base, "script.sh")
	if err := os.WriteFile(path, script, 0o644); err != nil {
		return runOut{err: err}
	}
	var args []string
	var shPath string
	switch cfg.Shell {
	case "dash":
		shPath = e.shells["dash"]
	case "bash":
		shPath = e.shells["bash"]
	case "bash-posix":
		shPath = e.shells["bash"]
		args = append(args, "--posix")
	default:
		return runOut{err: fmt.Errorf("unknown shell %q", cfg.Shell)}
	}
	args = append(args, path)
	cmd := exec.Command(shPath, args...)
	if !e.dirReady[cfg.Dir] {
		if err := e.resetDir(cfg.Dir); err != nil {
			return runOut{err: err}
		}
	}
	cmd.Dir = e.dirPath(cfg.Dir)
	cmd.Env = []string{"PATH=" + e.bin, "HOME=" + cfg.Home, "LC_ALL=" + cfg.Locale}
	var so, se bytes.Buffer
	cmd.Stdout, cmd.Stderr = &so, &se
	cmd.SysProcAttr = &syscall.SysProcAttr{Setpgid: true}
	if err := cmd.Start(); err != nil {
		return runOut{err: err}
	}
	done := make(chan error, 1)
	go func() { done <- cmd.Wait() }()
	var werr error
	out := runOut{}
	select {
	case werr = <-done:
	case <-time.After(300 * time.Second): // watchdog only; its firing is inconclusive
		out.timedOut = true
		syscall.Kill(-cmd.Process.Pid, syscall.SIGKILL)
		werr = <-done
	}
	syscall.Kill(-cmd.Process.Pid, syscall.SIGKILL) // whatever an injected command left behind
	out.stdout, out.stderr = so.Bytes(), se.Bytes()
	if werr != nil {
		var ee *exec.ExitError
		if errors.As(werr, &ee) {
			out.exit = ee.ExitCode()
		} else {
			out.err = werr
		}
	}
	return out
}

// item is one word of a batch: the escaped text and what argvdump must receive for it.
type item struct {
	in   string // the input of the glb function
	esc  string // the output of the glb function
	want string // expected argv element under the configuration
}

// plainQuote is the monitor's own quoting for the fixed parts of a script (never for a word
// under test): single quotes, an embedded quote as '\”.
func plainQuote(s string) string { return "'" + strings.ReplaceAll(s, "'", `'\''`) + "'" }

const oddIFS = "a'\"\\/~ \n"

// lineGroups cuts the items into command lines: at most perLine words and at most maxBytes of
// word text each (a single argument may be up to 128 KiB, all of argv up to ARG_MAX).
func lineGroups(items []item, maxWords, maxBytes int) [][]item {
	var out [][]item
	start, bytes := 0, 0
	for i, it := range items {
		n := len(it.esc) + len(it.want) + 16
		if i > start && (i-start >= maxWords || bytes+n > maxBytes) {
			out = append(out, items[start:i])
			start, bytes = i, 0
		}
		bytes += n
	}
	if start < len(items) {
		out = append(out, items[start:])
	}
	return out
}

// buildScript writes the script of one batch under cfg and what argvdump must print.
// The nested contexts (sh-c, eval) escape the whole inner command line with the real
// ShellEscape once more - that is how such command lines are built by callers.
func (e *shellEnv) buildScript(cfg shellCfg, items []item) (script, want []byte, problem string) {
	var sb, wb bytes.Buffer
	ad := e.argvdump
	switch cfg.Opts {
	case "ifs-odd":
		sb.WriteString("IFS=" + plainQuote(oddIFS) + "\n")
	case "ifs-empty":
		sb.WriteString("IFS=''\n")
	case "set-f":
		sb.WriteString("set -f\n")
	case "set-u":
		sb.WriteString("set -u\n")
	case "set-fu":
		sb.WriteString("set -fu\n")
	}
	if cfg.Ctx == "subst" {
		sb.WriteString("exec 3>&1\n")
	}
	maxWords, maxBytes := perLine, 512<<10
	if cfg.Ctx == "sh-c" || cfg.Ctx == "eval" {
		maxWords, maxBytes = 100, 12<<10 // the nested command line is one argument of sh -c
	}
	for _, g := range lineGroups(items, maxWords, maxBytes) {
		for _, it := range g {
			wb.WriteString(it.want)
			if cfg.Ctx == "herestr" {
				wb.WriteByte('\n') // a here-string is the word plus a newline; it is read back as it is
			}
			wb.WriteByte(0)
		}
		wb.WriteString(sentinel)
		wb.WriteByte(0)
		switch cfg.Ctx {
		case "":
			sb.WriteString(ad)
			for _, it := range g {
				sb.WriteByte(' ')
				sb.WriteString(it.esc)
			}
			sb.WriteString(" " + sentinel + "\n")
		case "tab": // tabs between the words, an operator directly after the last one
			sb.WriteString(ad)
			for _, it := range g {
				sb.WriteByte('\t')
				sb.WriteString(it.esc)
			}
			sb.WriteString(";" + ad + " " + sentinel + "\n")
		case "sh-c", "eval":
			var in strings.Builder
			in.WriteString(ad)
			for _, it := range g {
				in.WriteByte(' ')
				in.WriteString(it.esc)
			}
			in.WriteString(" " + sentinel)
			nested, p := callEscape(fnPlain, in.String())
			if p != "" {
				return nil, nil, "ShellEscape of the inner command line: " + p
			}
			if cfg.Ctx == "eval" {
				sb.WriteString("eval " + nested + "\n")
			} else {
				sh := e.shells["dash"]
				if cfg.Shell != "dash" {
					sh = e.shells["bash"]
				}
				if cfg.Shell == "bash-posix" {
					sh += " --posix"
				}
				sb.WriteString(sh + " -c " + nested + "\n")
			}
		case "for":
			sb.WriteString("set --; for w in")
			for _, it := range g {
				sb.WriteByte(' ')
				sb.WriteString(it.esc)
			}
			sb.WriteString("; do set -- \"$@\" \"$w\"; done; " + ad + " \"$@\" " + sentinel + "\n")
		case "var":
			var use strings.Builder
			for k, it := range g {
				fmt.Fprintf(&sb, "v%d=%s ", k, it.esc)
				fmt.Fprintf(&use, " \"$v%d\"", k)
			}
			sb.WriteString("\n" + ad + use.String() + " " + sentinel + "\n")
		case "subst":
			sb.WriteString(": $(" + ad)
			for _, it := range g {
				sb.WriteByte(' ')
				sb.WriteString(it.esc)
			}
			sb.WriteString(" " + sentinel + " >&3)\n")
		case "herestr": // bash: the word as a here-string, read back without any interpretation
			sb.WriteString("set --\n")
			for _, it := range g {
				sb.WriteString("IFS= read -r -d '' x <<< " + it.esc + "; set -- \"$@\" \"$x\"\n")
			}
			sb.WriteString(ad + " \"$@\" " + sentinel + "\n")
		default:
			return nil, nil, "unknown context " + cfg.Ctx
		}
	}
	return sb.Bytes(), wb.Bytes(), ""
}

// checkBatch runs the items under cfg. It returns "" when the shell saw exactly the expected
// words and did nothing else; otherwise a description of what it observed.
// inconclusive is set when the watchdog fired or the shell could not be started.
func (e *shellEnv) checkBatch(cfg shellCfg, items []item) (observed string, inconclusive bool) {
	script, want, prob := e.buildScript(cfg, items)
	if prob != "" {
		return prob, false
	}
	ro := e.runScript(cfg, script)
	if ro.err != nil {
		return "cannot run " + cfg.Shell + ": " + ro.err.Error(), true
	}
	if ro.timedOut {
		e.resetDir(cfg.Dir)
		return "watchdog: " + cfg.Shell + " did not finish the script", true
	}
	var bad []string
	if !bytes.Equal(ro.stdout, want) {
		bad = append(bad, diffArgv(ro.stdout, want, len(items)))
	}
	if len(ro.stderr) > 0 {
		bad = append(bad, "stderr: "+clipq(string(ro.stderr)))
	}
	if ro.exit != 0 {
		bad = append(bad, fmt.Sprintf("exit status %d", ro.exit))
	}
	if d := e.dirDelta(cfg.Dir); len(d) > 0 {
		bad = append(bad, "working directory changed (a command ran): "+strings.Join(d, ","))
		e.resetDir(cfg.Dir)
	}
	return strings.Join(bad, "; "), false
}

func diffArgv(got, want []byte, nitems int) string {
	g := splitNul(got)
	w := splitNul(want)
	k := 0
	for k < len(g) && k < len(w) && g[k] == w[k] {
		k++
	}
	var sb strings.Builder
	fmt.Fprintf(&sb, "argvdump received %d words, expected %d (incl. %d sentinels)", len(g), len(w), len(w)-nitems)
	if len(got) > 0 && got[len(got)-1] != 0 {
		sb.WriteString(", output not NUL-terminated")
	}
	if k < len(g) || k < len(w) {
		fmt.Fprintf(&sb, "; first difference at word %d: got ", k)
		if k < len(g) {
			sb.WriteString(clipq(g[k]))
		} else {
			sb.WriteString("<nothing>")
		}
		sb.WriteString(" want ")
		if k < len(w) {
			sb.WriteString(clipq(w[k]))
		} else {
			sb.WriteString("<nothing>")
		}
	}
	return sb.String()
}

func splitNul(b []byte) []string {
	if len(b) == 0 {
		return nil
	}
	s := string(b)
	s = strings.TrimSuffix(s, "\x00")
	return strings.Split(s, "\x00")
}

// minimize bisects a failing batch down to (normally) a single word.
func (e *shellEnv) minimize(cfg shellCfg, items []item) []item {
	for len(items) > 1 {
		h := len(items) / 2
		if o, inc := e.checkBatch(cfg, items[:h]); o != "" && !inc {
			items = items[:h]
		} else if o, inc := e.checkBatch(cfg, items[h:]); o != "" && !inc {
			items = items[h:]
		} else {
			break // only the combination fails: keep it
		}
	}
	return items
}

// selfTest proves that the observation channel works: unescaped hostile text must be seen to
// expand, to split and to create the canary. Returns "" when every control fired.
func (e *shellEnv) selfTest() string {
	for _, cfg := range cfgsFor(true) {
		// positive control 1: a plain round trip
		if o, inc := e.checkBatch(cfg, []item{{esc: "'a b'", want: "a b"}, {esc: "~/'x'", want: cfg.Home + "/x"}}); o != "" || inc {
			return cfg.String() + ": plain control failed: " + o
		}
		// positive control 2: unquoted text must be observed to misbehave
		for _, raw := range []string{"$(touch canary)", "`touch canary`", "x;touch canary", "*", "a b", "~", "#c", "x\ntouch canary"} {
			o, inc := e.checkBatch(cfg, []item{{esc: raw, want: raw}})
			if inc {
				return cfg.String() + ": " + o
			}
			if o == "" {
				return fmt.Sprintf("%s: unescaped %q went unnoticed", cfg, raw)
			}
			if strings.Contains(raw, "touch canary") && !strings.Contains(o, "created:canary") {
				return fmt.Sprintf("%s: unescaped %q did not create the canary (%s)", cfg, raw, o)
			}
		}
	}
	return ""
}

// selfTestCtx: positive controls of the thorough contexts - in every context a correctly quoted
// pair must round-trip and an unescaped command substitution must be seen to create the canary.
func (e *shellEnv) selfTestCtx() string {
	for _, cfg := range ctxCfgs(true) {
		if cfg.Locale != "C" {
			continue
		}
		if o, inc := e.checkBatch(cfg, []item{{esc: "'a b'", want: "a b"}, {esc: "~/'x'", want: cfg.Home + "/x"}, {esc: "''", want: ""}}); o != "" || inc {
			return cfg.String() + ": plain control failed: " + o
		}
		raw := "$(touch canary)"
		o, inc := e.checkBatch(cfg, []item{{esc: raw, want: raw}})
		if inc {
			return cfg.String() + ": " + o
		}
		if !strings.Contains(o, "created:canary") {
			return fmt.Sprintf("%s: unescaped %q did not create the canary (%s)", cfg, raw, o)
		}
	}
	return ""
}
