package main

// Byte sweep (both tiers): every byte 0x01..0xff and a few multi-byte runes in the first, the
// last and a middle position of short climbing paths. Cheap (a few thousand paths); it makes the
// quick tier independent of which bytes its exhaustive alphabet happens to contain (a path whose
// first byte is ':' or '\\' or 0x80 must be rooted like any other).

var sweepRunes = []string{"é", "．", "‥", "‮", "日", "\U0001F600", " ", "∕", "／"}

func sweepPaths() [][]byte {
	var syms []string
	for b := 1; b <= 0xff; b++ {
		syms = append(syms, string([]byte{byte(b)}))
	}
	syms = append(syms, sweepRunes...)
	var out [][]byte
	for _, b := range syms {
		for _, p := range []string{
			// first position
			b + "/../..", b + "/../../x", b + "a/../..", "/" + b + "/../../..", b, b + b, b + "/..", b + "../..", b + "..",
			// last position
			"/a/../.." + b, "../../x" + b, "/../../" + b, "a/../.." + b, "../.." + b, "/a" + b,
			// in the middle of a climbing path
			"/a/" + b + "/../../..", "a/.." + b + "/../..", "/.." + b + "./..", "/../" + b + "../..", ".." + b + "..", "a" + b + "../../..",
		} {
			out = append(out, []byte(p))
		}
	}
	return out
}

// trivialPaths: the paths that add (almost) nothing to the base.
var trivialPaths = []string{"", "/", "//", "///", ".", "/.", "./", "/./", "a", "/a", "/a/", "a/", "a//a"}

// uncleanBases: bases that are not in clean form (and a few that are, as controls).
var uncleanBases = []string{
	"/data/", "/data//", "//data", "/data/.", "/data/./", "/data/../etc", "/data/../etc/", "/data/sub/..", "/data/sub/../", "/x/../data", "/data//sub/.",
	"a//b/.", "a/", "a/./b//", "./a", "./a/", "./", ".//", "./.", "../", "..//", "../up/", "a/../b", "a/../b/", "a/b/../..", "./a/../b/", "data/..", "data/../",
	"//", "/./", "/../", "/..", "/a/b/../../", "../../x/./",
	// controls, already clean
	"/", ".", "..", "/data", "data", "../up",
}
