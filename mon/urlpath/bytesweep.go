package main

// Byte sweep (both tiers): every byte 0x01..0xff and a few multi-byte runes in the first, the
// last and a middle position of short climbing paths. Cheap (a few thousand paths); it makes the
// quick tier independent of which bytes its exhaustive alphabet happens to contain (a path whose
// first byte is ':' or '\\' or 0x80 must be rooted like any other).

var sweepRunes = []string{"é", "．", "‥", "‮", "日", "\U0001F600", " ", "∕", "／"}

func sweepPaths() [][]byte {
	var syms []string
	for b := 1; b <= 0xff; b++ {
		syms = append(syms, string([]byte{byte(b)}))
	}
	syms = append(syms, sweepRunes...)
	var out [][]byte
	for _, b := range syms {
		for _, p := range []string{
			// first position
			b + "/../..", b + "/../../x", b + "a/../..", "/" + b + "/../../..", b, b + b, b + "/..", b + "../..", b + "..",
			// last position
			"/a/../.." + b, "../../x" + b, "/../../" + b, "a/../.." + b, "../.." + b, "/a" + b,
			// in the middle of a climbing path
			"/a/" + b + "/../../..", "a/.." + b + "/../..", "/.." + b + "./..", "/../" + b + "../..", ".." + b + "..", "a" + b + "../../..",
		} {
			out = append(out, []byte(p))
		}
	}
	return out
}
