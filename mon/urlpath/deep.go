package main

import (
	"fmt"
	"math/rand"
	"strings"
)

// Thorough-only workloads. The oracles are those of runCase, unchanged; this file only adds
// inputs: a second, wider alphabet, many more spellings of the base, very long paths and byte
// strings of several KiB.

// syms2 is the second alphabet: the four bytes of the first one plus '%', "%2e", ' ', ':', '~', a
// control byte, a multi-byte rune and a lone byte >= 0x80 (invalid UTF-8).
var syms2 = []string{"/", ".", "a", "\\", "%", "%2e", " ", ":", "~", "\x01", "é", "\xff"}

// syms3 is the third alphabet: whole segments and separators as symbols, so that short sequences
// are deep traversal shapes ("/../a/../../SECRET").
var syms3 = []string{"/", "..", ".", "a", "//", "/../", "\\", "SECRET"}

// further spellings of the canary bases (thorough)
var fsAbsBasesX = []fsBase{
	{"$T/r/base//", "r/base", ""}, {"$T/r/./base", "r/base", ""}, {"$T//r/base", "r/base", ""}, {"$T/r/base/.", "r/base", ""},
	{"$T/r/base/sub/..", "r/base", ""}, {"$T/r/up/../base/", "r/base", ""}, {"$T/r/C/../base", "r/base", ""}, {"$T/r/base/sub", "r/base/sub", ""},
	{"$T/r/base/a/..", "r/base", ""}, {"$T/r/C/a/b", "r/C/a/b", ""}, {"$T/r/C/data/", "r/C/data", ""},
}

var fsRelBasesX = []fsBase{
	{"./.", "r/C", "r/C"}, {"../C", "r/C", "r/C"}, {"../C/", "r/C", "r/C"}, {"./data/", "r/C/data", "r/C"}, {"data/.", "r/C/data", "r/C"},
	{"../base", "r/base", "r/C"}, {"a/b/..", "r/C/a", "r/C"}, {"../../r/C", "r/C", "r/C"}, {"b", "r/C/b", "r/C"}, {"a/b", "r/C/a/b", "r/C"},
	{"../base/sub/", "r/base/sub", "r/C"}, {".././C/./data", "r/C/data", "r/C"},
}

// forEachSyms enumerates all sequences of 0..maxLen symbols, shortest first.
func forEachSyms(syms []string, minLen, maxLen, part, parts int, f func(idx int, p []byte) bool) {
	idx := 0
	n := len(syms)
	for l := minLen; l <= maxLen; l++ {
		total := 1
		for i := 0; i < l; i++ {
			total *= n
		}
		digits := make([]int, l)
		for v := 0; v < total; v++ {
			idx++
			h := uint64(idx) * 0x9E3779B97F4A7C15
			h ^= h >> 29
			h *= 0xBF58476D1CE4E5B9
			h ^= h >> 32
			if int(h%uint64(parts)) != part {
				continue
			}
			x := v
			for i := l - 1; i >= 0; i-- {
				digits[i] = x % n
				x /= n
			}
			buf := make([]byte, 0, 3*l)
			for _, d := range digits {
				buf = append(buf, syms[d]...)
			}
			if !f(idx, buf) {
				return
			}
		}
	}
}

// xBasesShort: many more spellings of a base directory (all non-empty).
var xBasesShort = []string{
	// relative
	"a", "a/b", "a/b/c/d/e", "./a", "./a/./b", "../a", "../../a", "../..", "a/..", "a/../..", "a/./../b/", "x/../../y", ".//", ".///.", "..//", "a//b//", "a/", "./.", "../.", "./..",
	// absolute
	"/a", "/a/", "/a//", "//", "//a", "///a/b/", "/..", "/../a", "/a/..", "/a/../", "/a/b/../../..", "/./a/.", "/srv/www/../shared", "/opt/app/static/../conf/", "/srv/www/../..", "/.", "/./", "/a/b/c/../../../d/",
	// dots and blanks
	"...", ".../a", "/...", "..a", "a..", "/.hidden", ". ", " .", "/ ", " ", ".. ", " ..", "/.. /a", "/a/. ./b",
	// names that look like symbolic links
	"/var/www/current", "/srv/link -> target", "/data/@latest", "/data/lnk.lnk", "/proc/self/cwd", "/proc/self/root", "current/../releases/42", "/etc/alternatives/www/", "latest",
	// backslashes
	"\\", "/data\\", "/data\\..", "C:\\inetpub\\wwwroot", "\\\\server\\share", "a\\..\\b", "/a/\\../b", "..\\", "/data/..\\", "\\..\\..",
	// Unicode and bytes that are not UTF-8
	"/données", "/данные/сайт", "/数据/站点/", "дані/../сайт", "/data/\u202e", "/a\u0301", "/ＡＢ/．．", "/data/\xff\xfe", "/\xc0\xae\xc0\xae", "/data/\u2025", "/data/\u00a0",
	// other punctuation
	"~", "~/www", "/data/%2e%2e", "/data/%2e%2e/", "/data:80", "/data;v=1", "/data?x", "/data#frag", "/data\n", "/da\tta", "/data/\x01", "/data/\x7f",
}

// xBasesLong: very long bases.
var xBasesLong = []string{
	strings.Repeat("/seg", 1000),
	strings.Repeat("a/", 2000) + "a",
	strings.Repeat("../", 500) + "up",
	"/" + strings.Repeat("x", 5000),
	strings.Repeat("/a/..", 800) + "/data",
	strings.Repeat("/", 3000) + "a",
	strings.Repeat("./", 1500) + ".",
	"/data" + strings.Repeat("/..", 700),
}

func xBasesAll() []string {
	return append(append([]string(nil), xBasesShort...), xBasesLong...)
}

// longPath builds one very long URL path.
func longPath(r *rand.Rand) []byte {
	var sb strings.Builder
	if r.Intn(3) > 0 {
		sb.WriteString("/")
	}
	tails := []string{"SECRET", "a", "", "..", "etc/passwd", "a/a", "../SECRET"}
	switch r.Intn(8) {
	case 0: // k ordinary segments, then about k dot-dots
		k := r.Intn(4000)
		m := k - 2 + r.Intn(6)
		if r.Intn(4) == 0 {
			m = k + r.Intn(3000)
		}
		sb.WriteString(strings.Repeat("a/", k))
		for i := 0; i < m; i++ {
			sb.WriteString("../")
		}
	case 1: // a deep run of dot-dots
		sb.WriteString(strings.Repeat("../", 1+r.Intn(6000)))
	case 2: // in and out, then out
		sb.WriteString(strings.Repeat("a/../", r.Intn(3000)))
		sb.WriteString(strings.Repeat("../", r.Intn(50)))
	case 3: // thousands of pool segments
		n := 1000 + r.Intn(4000)
		for i := 0; i < n; i++ {
			sb.WriteString(pick(r))
			sb.WriteString("/")
		}
	case 4: // random bytes, several KiB
		sb.Write(randBytes(r, 1+r.Intn(8192)))
	case 5: // down with noise, then one more up than down
		n := 1 + r.Intn(2500)
		for i := 0; i < n; i++ {
			switch r.Intn(6) {
			case 0:
				sb.WriteString("a//")
			case 1:
				sb.WriteString("a/./")
			default:
				sb.WriteString("a/")
			}
		}
		for i := 0; i < n+r.Intn(3); i++ {
			if r.Intn(8) == 0 {
				sb.WriteString(".././")
			} else {
				sb.WriteString("../")
			}
		}
	case 6: // one giant segment
		c := []string{"a", ".", "\\", "%2e", "é"}[r.Intn(5)]
		sb.WriteString(strings.Repeat(c, 4096+r.Intn(12000)))
		sb.WriteString("/")
	case 7: // dot-dots written with backslashes and percent signs between real ones
		n := 500 + r.Intn(2000)
		for i := 0; i < n; i++ {
			switch r.Intn(5) {
			case 0:
				sb.WriteString("..\\")
			case 1:
				sb.WriteString("%2e%2e/")
			case 2:
				sb.WriteString("a/")
			default:
				sb.WriteString("../")
			}
		}
	}
	sb.WriteString(tails[r.Intn(len(tails))])
	return []byte(sb.String())
}

// xRandBase: a base for the wide random shards.
func xRandBase(r *rand.Rand, all []string) string {
	switch x := r.Intn(20); {
	case x < 12:
		return all[r.Intn(len(all))]
	case x < 16:
		return randBase(r)
	default:
		// a base made of pool segments (Unicode, blanks, percent forms, backslashes)
		for {
			var sb strings.Builder
			if r.Intn(2) == 0 {
				sb.WriteString("/")
			}
			n := 1 + r.Intn(6)
			for i := 0; i < n; i++ {
				if i > 0 {
					sb.WriteString("/")
				}
				sb.WriteString(pick(r))
			}
			if r.Intn(3) == 0 {
				sb.WriteString("/")
			}
			if s := sb.String(); s != "" && !strings.ContainsRune(s, 0) {
				return s
			}
		}
	}
}

// xRandPath: the random paths of the quick tier, plus now and then a byte string of several KiB.
func xRandPath(r *rand.Rand) []byte {
	switch x := r.Intn(40); {
	case x == 0:
		return randBytes(r, 1024+r.Intn(7168))
	case x == 1:
		return longPath(r)
	default:
		return randPath(r)
	}
}

func idxName(kind string, i int) string { return fmt.Sprintf("%s-%d", kind, i) }
