package main

import (
	"fmt"
	"os"
	"path/filepath"
	"strings"
	"syscall"
)

// The file-system canary. A temporary tree T is built once per process:
//
//	T/{SECRET, a/a}                      outside of every base
//	T/r/{SECRET, a/a}                    "root": outside of every base except ".."
//	T/r/base/{SECRET, a/a, sub/{SECRET, a/a}}   the absolute base (its own SECRET is a legitimate file)
//	T/r/x/                               for the base spelt ".../x/../base"
//	T/r/up/{SECRET, a/a}                 for the relative base "../up"
//	T/r/C/{SECRET, a/a, a/b/{..}, data/{..}, b/{..}}   C is the working directory of the relative bases
//
// Every file has unique content. For a base the set of inodes and file contents *inside* it is
// collected by walking downwards from the directory the harness itself created; whether the
// path returned by glb reaches anything else is then decided by the kernel (stat / open).

const fileMagic = "verif-urlpath-canary:"

type inodeKey struct{ dev, ino uint64 }

type inside struct {
	inodes   map[inodeKey]string // inode -> path relative to the base dir
	byRel    map[string]inodeKey // path relative to the base dir ("." = the dir) -> inode
	contents map[string]bool
}

type fsEnv struct {
	T      string
	cwd    string // current chdir relative to T ("" = untouched)
	inside map[string]*inside
	orig   string
}

var populated = []string{"", "r", "r/base", "r/base/sub", "r/up", "r/C", "r/C/a/b", "r/C/data", "r/C/b"}

func newFsEnv() (*fsEnv, error) {
	t, err := os.MkdirTemp("", "verif-urlpath-")
	if err != nil {
		return nil, err
	}
	if t, err = filepath.EvalSymlinks(t); err != nil {
		return nil, err
	}
	e := &fsEnv{T: t, inside: map[string]*inside{}}
	e.orig, _ = os.Getwd()
	for _, d := range append([]string{"r/x"}, populated...) {
		if err := os.MkdirAll(filepath.Join(t, d, "a"), 0o755); err != nil {
			return nil, err
		}
	}
	os.Remove(filepath.Join(t, "r/x/a"))
	for _, d := range populated {
		for _, f := range []string{"SECRET", "a/a"} {
			rel := filepath.Join(d, f)
			if err := os.WriteFile(filepath.Join(t, rel), []byte(fileMagic+rel), 0o644); err != nil {
				return nil, err
			}
		}
	}
	return e, nil
}

func (e *fsEnv) close() {
	if e == nil {
		return
	}
	if e.orig != "" {
		os.Chdir(e.orig)
	}
	os.RemoveAll(e.T)
}

func (e *fsEnv) chdir(rel string) error {
	if rel == e.cwd || rel == "" {
		return nil
	}
	if err := os.Chdir(filepath.Join(e.T, rel)); err != nil {
		return err
	}
	e.cwd = rel
	return nil
}

func statKey(fi os.FileInfo) inodeKey {
	st := fi.Sys().(*syscall.Stat_t)
	return inodeKey{uint64(st.Dev), uint64(st.Ino)}
}

// insideOf walks the directory dir (relative to T) downwards.
func (e *fsEnv) insideOf(dir string) (*inside, error) {
	if in := e.inside[dir]; in != nil {
		return in, nil
	}
	in := &inside{inodes: map[inodeKey]string{}, byRel: map[string]inodeKey{}, contents: map[string]bool{}}
	root := filepath.Join(e.T, dir)
	err := filepath.WalkDir(root, func(p string, d os.DirEntry, err error) error {
		if err != nil {
			return err
		}
		fi, err := os.Lstat(p)
		if err != nil {
			return err
		}
		rel := "."
		if p != root {
			rel = strings.TrimPrefix(p, root+"/")
		}
		in.inodes[statKey(fi)] = rel
		in.byRel[rel] = statKey(fi)
		if fi.Mode().IsRegular() {
			b, err := os.ReadFile(p)
			if err != nil {
				return err
			}
			in.contents[string(b)] = true
		}
		return nil
	})
	if err != nil {
		return nil, err
	}
	e.inside[dir] = in
	return in, nil
}

// selfTest proves that the canary can see an escape: the classic traversal spelt by hand must
// reach the secret, and it must be classified as outside.
func (e *fsEnv) selfTest() error {
	in, err := e.insideOf("r/base")
	if err != nil {
		return err
	}
	p := e.T + "/r/base/../SECRET"
	fi, err := os.Stat(p)
	if err != nil {
		return fmt.Errorf("self-test: %v", err)
	}
	b, err := os.ReadFile(p)
	if err != nil {
		return fmt.Errorf("self-test: %v", err)
	}
	if _, ok := in.inodes[statKey(fi)]; ok || in.contents[string(b)] || string(b) != fileMagic+"r/SECRET" {
		return fmt.Errorf("self-test: %s is not recognised as outside of r/base (content %q)", p, b)
	}
	fi, err = os.Stat(e.T + "/r/base/a/a")
	if err != nil {
		return fmt.Errorf("self-test: %v", err)
	}
	if rel, ok := in.inodes[statKey(fi)]; !ok || rel != "a/a" {
		return fmt.Errorf("self-test: r/base/a/a is not recognised as inside (rel %q)", rel)
	}
	return nil
}

// fsBase is one spelling of a base directory for the canary.
type fsBase struct {
	Base  string // what is passed to glb; "$T" stands for the temporary root
	Dir   string // the directory it denotes, relative to T
	Chdir string // working directory relative to T ("" = none needed)
}

var fsAbsBases = []fsBase{
	{"$T/r/base", "r/base", ""},
	{"$T/r/base/", "r/base", ""},
	{"$T/r/x/../base", "r/base", ""},
	{"$T/r/base//sub/.", "r/base/sub", ""},
	{"$T/r/C/a/b/../..", "r/C", ""},
}

var fsRelBases = []fsBase{
	{".", "r/C", "r/C"},
	{"./", "r/C", "r/C"},
	{"..", "r", "r/C"},
	{"data", "r/C/data", "r/C"},
	{"a/../b", "r/C/b", "r/C"},
	{"../up", "r/up", "r/C"},
	{"a/b/../..", "r/C", "r/C"},
}
