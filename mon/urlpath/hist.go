package main

import (
	"fmt"
	"math/rand"
	"strconv"
	"strings"
)

// History shards: ResolveUrlPath must be a function of its two arguments. A sequence of calls is
// made in ONE process and every single call is judged by the same oracles as everywhere else
// (containment; exact join for dot-free paths; the kernel canary for bases inside the temporary
// tree). The sequences are built so that state carried from one call to another would show:
//
//   - bases B with a "/.." (or just a "/") inside and every textual cut B = A + rest at a '/':
//     (B, p) and (A, rest+p) are two different questions with the same concatenation
//     base+path; asked back to back (each twice), in both orders (the two orders run in
//     different processes, so each pair is fresh), and in batches where other bases' calls lie
//     between the two;
//   - random strings of segments, all of whose cuts are asked in random order, each twice.

// Call is one call of a history.
type Call struct {
	Base  string `json:"base"`
	Path  []byte `json:"path"`
	PathQ string `json:"path_quoted,omitempty"`
	Dir   string `json:"dir,omitempty"`   // canary: directory the base denotes, relative to $T
	Chdir string `json:"chdir,omitempty"` // canary: working directory relative to $T
}

func (c Call) concat() string {
	p := string(c.Path)
	if p == "" || p[0] != '/' {
		p = "/" + p
	}
	return c.Base + p
}

// runHist runs the calls of cs.Seq in order in this process and returns the first refuted call.
func (r *runner) runHist(cs *Case) (key, expected, observed string, herr error) {
	for i := range cs.Seq {
		cl := cs.Seq[i]
		one := Case{Mode: "lex", Base: cl.Base, Path: cl.Path, Dir: cl.Dir, Chdir: cl.Chdir}
		if cl.Dir != "" {
			one.Mode = "fs"
		}
		k, e, o, err := r.runCase(&one)
		if err != nil {
			return "", "", "", err
		}
		if len(cs.Seq) > 1 {
			r.st.add("hist_calls", 1)
		}
		if strings.HasPrefix(k, "retained-result-") {
			*cs = one // the recorded case is the history from the kept call to this one
			return k, e, o, nil
		}
		if k == "" {
			if r.histSeen == nil {
				r.histSeen = map[string]Call{}
			}
			r.histSeen[cl.concat()] = cl
			continue
		}
		// name the most recent earlier call that is a different question with the same
		// concatenation base+path, else the most recent identical call, else the predecessor
		after, why := "none", "no earlier call"
		for j := i - 1; j >= 0; j-- {
			pj := cs.Seq[j]
			if pj.concat() == cl.concat() && (pj.Base != cl.Base || string(pj.Path) != string(cl.Path)) {
				after, why = fmt.Sprintf("base=%s:path=%s", q(pj.Base), q(string(pj.Path))), fmt.Sprintf("call %d of the history, a different (base, path) with the same concatenation base+path, %d calls earlier", j, i-j)
				break
			}
		}
		if after == "none" {
			if pj, ok := r.histSeen[cl.concat()]; ok && (pj.Base != cl.Base || string(pj.Path) != string(cl.Path)) {
				// asked in an earlier history of this process: make it part of the recorded case
				cs.Seq = append([]Call{pj}, cs.Seq...)
				i++
				after, why = fmt.Sprintf("base=%s:path=%s", q(pj.Base), q(string(pj.Path))), "a different (base, path) with the same concatenation base+path, asked in an earlier history of the same process (prepended to the recorded case as call 0)"
			}
		}
		if after == "none" && len(cs.Seq) == 1 {
			*cs = one // a single call of a random shard with nothing related before it: a plain case
			return k, e, o, nil
		}
		if after == "none" && i > 0 {
			pj := cs.Seq[i-1]
			after, why = fmt.Sprintf("base=%s:path=%s", q(pj.Base), q(string(pj.Path))), "the preceding call of the history"
		}
		for j := range cs.Seq {
			cs.Seq[j].PathQ = strconv.QuoteToASCII(string(cs.Seq[j].Path))
		}
		cs.Got = one.Got
		return "hist:" + k + ":after:" + after, e + fmt.Sprintf(" — for call %d of a history of %d calls in one process, whatever was asked before", i, len(cs.Seq)),
			o + fmt.Sprintf(" (call %d; after %s: %s)", i, why, after), nil
	}
	return "", "", "", nil
}

// asHistory wraps a single call as a history of one call, so that a refuted call of a random
// shard is recorded together with an earlier call of the same process that shares its
// concatenation base+path (if there is one).
func asHistory(cs Case) Case {
	return Case{Mode: "hist", Seq: []Call{{Base: cs.Base, Path: cs.Path, Dir: cs.Dir, Chdir: cs.Chdir}}}
}

// histBase: a base with its cuts.
type histBase struct {
	fsBase
	Cuts []fsBase // (A, directory A denotes); rest = Base[len(A):]
}

// cutsOf returns every textual cut of b at a '/' (A non-empty, rest starts with '/').
func cutsOf(b string) []string {
	var out []string
	for i := 1; i < len(b); i++ {
		if b[i] == '/' {
			out = append(out, b[:i])
		}
	}
	return out
}

var histLexBases = []string{
	"/srv/www/../shared", "a/../b", "/x/../data", "/opt/app/static/../conf", "a/b/../..", "/srv/www/../..",
	"/data/..", "/data//sub/.", "/a/b/../../c", "x/../..", "./a/..", "/data/sub/../../etc", "../up/../side",
	"/srv/www/./../shared/", "/a/..a/../b", "/a/.../../b", "data/sub",
}

// canary bases with a ".." inside; Cuts name the directory each textual prefix denotes
var histFsAbs = []histBase{
	{fsBase{"$T/r/x/../base", "r/base", ""}, []fsBase{{"$T/r/x", "r/x", ""}}},
	{fsBase{"$T/r/base/../up", "r/up", ""}, []fsBase{{"$T/r/base", "r/base", ""}}},
	{fsBase{"$T/r/C/a/b/../..", "r/C", ""}, []fsBase{{"$T/r/C/a/b", "r/C/a/b", ""}, {"$T/r/C/a/b/..", "r/C/a", ""}, {"$T/r/C/a", "r/C/a", ""}, {"$T/r/C", "r/C", ""}}},
	{fsBase{"$T/r/base/sub/../../up", "r/up", ""}, []fsBase{{"$T/r/base/sub", "r/base/sub", ""}, {"$T/r/base/sub/..", "r/base", ""}, {"$T/r/base", "r/base", ""}}},
}

var histFsRel = []histBase{
	{fsBase{"a/../b", "r/C/b", "r/C"}, []fsBase{{"a", "r/C/a", "r/C"}}},
	{fsBase{"a/b/../..", "r/C", "r/C"}, []fsBase{{"a/b", "r/C/a/b", "r/C"}, {"a/b/..", "r/C/a", "r/C"}, {"a", "r/C/a", "r/C"}}},
	{fsBase{"data/../../up", "r/up", "r/C"}, []fsBase{{"data", "r/C/data", "r/C"}, {"data/..", "r/C", "r/C"}}},
	{fsBase{"./a/..", "r/C", "r/C"}, []fsBase{{"./a", "r/C/a", "r/C"}, {".", "r/C", "r/C"}}},
	{fsBase{"../up/../base", "r/base", "r/C"}, []fsBase{{"../up", "r/up", "r/C"}, {"..", "r", "r/C"}}},
}

var histFixedPaths = []string{
	"", "/", "/a", "/a/a", "/SECRET", "/key.pem", "a", "a/a", "SECRET", "/a/", "//a", "/./a", "/..", "/../a", "/../SECRET",
	"/a/../SECRET", "/a\\..", "/...", "/.a", "/sub/a/a", "/up/SECRET", "/b/a/a", "/etc/passwd", "/conf/a", "/shared/key.pem",
	"/base/SECRET", "/a/b/SECRET", "/../../SECRET", "../../etc/passwd", "/a/a/..",
}

// histPaths: the fixed list plus every string up to maxLen over the alphabet.
func histPaths(maxLen int) [][]byte {
	var out [][]byte
	seen := map[string]bool{}
	for _, p := range histFixedPaths {
		seen[p] = true
		out = append(out, []byte(p))
	}
	forEachPath(maxLen, 0, 1, func(_ int, p []byte) bool {
		if !seen[string(p)] {
			out = append(out, p)
		}
		return true
	})
	return out
}

// restPath is the path of the counterpart call on the prefix A: rest + rooted p.
func restPath(rest string, p []byte) []byte {
	s := string(p)
	if s == "" || s[0] != '/' {
		s = "/" + s
	}
	return []byte(rest + s)
}

// histGroup is one concatenation base+path with all the questions that share it: the call on
// the full base B and the calls on its textual prefixes.
type histGroup struct {
	onB Call
	onA []Call
}

func histGroups(fs, rel bool, maxLen int, wide bool) (groups []histGroup, pairs int) {
	var bases []histBase
	switch {
	case !fs:
		lb := histLexBases
		if wide {
			lb = nil
			for _, b := range xBasesShort {
				if len(cutsOf(b)) > 0 {
					lb = append(lb, b)
				}
			}
		}
		for _, b := range lb {
			hb := histBase{fsBase: fsBase{Base: b}}
			for _, a := range cutsOf(b) {
				hb.Cuts = append(hb.Cuts, fsBase{Base: a})
			}
			bases = append(bases, hb)
		}
	case rel:
		bases = histFsRel
	default:
		bases = histFsAbs
	}
	// interleaved: the bases alternate fastest; the order of the cuts rotates with the path
	for pi, p := range histPaths(maxLen) {
		for _, b := range bases {
			g := histGroup{onB: Call{Base: b.Base, Path: p, Dir: b.Dir, Chdir: b.Chdir}}
			for k := range b.Cuts {
				a := b.Cuts[(k+pi)%len(b.Cuts)]
				rest := b.Base[len(a.Base):]
				g.onA = append(g.onA, Call{Base: a.Base, Path: restPath(rest, p), Dir: a.Dir, Chdir: a.Chdir})
				pairs++
			}
			groups = append(groups, g)
		}
	}
	return
}

// histCases turns groups into histories. rev: the calls on the prefixes come first.
// batch <= 1: one history per group, back to back, each call twice. batch > 1: one history per
// `batch` groups: all first calls, then all counterpart calls in a rotated order, then
// everything once more.
func histCases(groups []histGroup, rev bool, batch int, seed int64) []Case {
	var out []Case
	if batch < 0 {
		// shuffled: all calls of -batch groups, each twice, in a seeded random order; rev only
		// changes the seed
		r := rand.New(rand.NewSource(seed*1000003 + 122949829 + int64(batch)))
		if rev {
			r = rand.New(rand.NewSource(seed*1000003 + 141650939 + int64(batch)))
		}
		n := -batch
		for i := 0; i < len(groups); i += n {
			var seq []Call
			for _, g := range groups[i:min(i+n, len(groups))] {
				seq = append(seq, g.onB, g.onB)
				for _, a := range g.onA {
					seq = append(seq, a, a)
				}
			}
			r.Shuffle(len(seq), func(i, j int) { seq[i], seq[j] = seq[j], seq[i] })
			out = append(out, Case{Mode: "hist", Seq: seq})
		}
		return out
	}
	if batch <= 1 {
		for _, g := range groups {
			var seq []Call
			if !rev {
				seq = append(seq, g.onB, g.onB)
			}
			for _, a := range g.onA {
				seq = append(seq, a, a)
			}
			if rev {
				seq = append(seq, g.onB, g.onB)
			}
			out = append(out, Case{Mode: "hist", Seq: seq})
		}
		return out
	}
	for i := 0; i < len(groups); i += batch {
		grp := groups[i:min(i+batch, len(groups))]
		var seq []Call
		bs := func(rot int) {
			for j := range grp {
				seq = append(seq, grp[(j+rot)%len(grp)].onB)
			}
		}
		as := func(rot int) {
			for j := range grp {
				seq = append(seq, grp[(j+rot)%len(grp)].onA...)
			}
		}
		if !rev {
			bs(0)
			as(len(grp) / 3)
		} else {
			as(0)
			bs(len(grp) / 3)
		}
		bs(0)
		as(0)
		out = append(out, Case{Mode: "hist", Seq: seq})
	}
	return out
}

var splitSegs = []string{"a", "b", "..", "..", ".", "", "data", "SECRET", "x", "...", "a\\..", "..a"}

// randSplitCase: one random string of segments, all its cuts asked in random order, each twice.
func randSplitCase(r *rand.Rand, wide bool) Case {
	for {
		var sb strings.Builder
		switch r.Intn(4) {
		case 0, 1:
			sb.WriteString("/")
		case 2:
			sb.WriteString("./")
		}
		n := 3 + r.Intn(6)
		if wide && r.Intn(10) == 0 {
			n = 10 + r.Intn(30)
		}
		for i := 0; i < n; i++ {
			if i > 0 {
				sb.WriteString("/")
			}
			if wide && r.Intn(3) == 0 {
				sb.WriteString(pick(r)) // the large pool: blanks, percent forms, backslashes, Unicode
			} else {
				sb.WriteString(splitSegs[r.Intn(len(splitSegs))])
			}
		}
		s := sb.String()
		cuts := cutsOf(s)
		if len(cuts) < 2 {
			continue
		}
		var seq []Call
		for _, a := range cuts {
			c := Call{Base: a, Path: []byte(s[len(a):])}
			if r.Intn(3) == 0 {
				c.Path = c.Path[1:] // the same question without the leading slash
			}
			seq = append(seq, c, c)
		}
		r.Shuffle(len(seq), func(i, j int) { seq[i], seq[j] = seq[j], seq[i] })
		return Case{Mode: "hist", Seq: seq}
	}
}
