// Monitor urlpath (C17): fsutil.ResolveUrlPath never leaves the base.
//
// Two independent oracles (DESIGN.md §3 C17):
//
//  1. lexical: expected = cleaned base + segment-stack evaluation of the URL path, both computed
//     by the small routines of model.go (no path.Clean / filepath.Clean / filepath.Join). The
//     returned path, evaluated by the same segment stack, must be the cleaned base or lie beneath
//     it; for a URL path free of "." / ".." segments it must be the base joined with the
//     segments of the path in order.
//  2. the kernel as judge: in a temporary tree with secret files outside the base, stat / open of
//     the returned path must never reach an inode or file content outside the base (absolute
//     bases, and relative bases after chdir), and for a dot-free path that names an existing
//     entry of the base it must reach exactly that inode.
package main

import (
	"encoding/json"
	"errors"
	"fmt"
	"math/rand"
	"os"
	"strconv"
	"strings"
	"syscall"

	"github.com/whoisnian/glb/util/fsutil"

	"verif/internal/drv"
)

// strictModelEquality: the property text prescribes the exact result only for dot-free URL
// paths; for paths with dot segments it demands containment. With false (default) a contained
// result that differs from the model on a dotted path is counted (dotted_differs_from_model) and
// noted, not reported as a violation.
const strictModelEquality = false

// Case is one replayable evaluation.
type Case struct {
	Mode  string    `json:"mode"`                  // "lex" | "fs" | "hist" (a sequence of calls in one process)
	Seq   []Call    `json:"seq,omitempty"`         // hist mode: the calls, in order
	Conc  *ConcArgs `json:"conc,omitempty"`        // conc mode: a concurrent scenario
	Base  string    `json:"base,omitempty"`        // fs mode: "$T" stands for the temporary root
	Path  []byte    `json:"path,omitempty"`        // raw URL path (base64 in JSON: arbitrary bytes)
	PathQ string    `json:"path_quoted,omitempty"` // the same, Go-quoted, for the reader
	Dir   string    `json:"dir,omitempty"`         // fs mode: directory the base denotes, relative to $T
	Chdir string    `json:"chdir,omitempty"`       // fs mode: working directory relative to $T
	Got   string    `json:"got,omitempty"`         // informational
}

type stats struct {
	m map[string]int64
}

func (s *stats) add(k string, n int64) { s.m[k] += n }

func q(s string) string {
	if len(s) > 2048 {
		// very long inputs of the thorough tier: a stable short form (prefix, length, hash)
		return strings.ReplaceAll(strconv.QuoteToASCII(s[:96]), " ", `\x20`) + fmt.Sprintf("...(len=%d,fnv=%016x)", len(s), drv.HashStr(s))
	}
	return strings.ReplaceAll(strconv.QuoteToASCII(s), " ", `\x20`)
}

func resolve(base, p string) (got string, panicked any) {
	defer func() {
		if r := recover(); r != nil {
			panicked = r
		}
	}()
	return fsutil.ResolveUrlPath(base, p), nil
}

type runner struct {
	st    *stats
	env   *fsEnv
	notes []string

	kept  [retainWindow]keptRes // retained-result oracle: the last results exactly as returned
	keptN int64

	histSeen map[string]Call // history shards: concatenation base+path -> last call made with it in this process
}

func (r *runner) fs() (*fsEnv, error) {
	if r.env != nil {
		return r.env, nil
	}
	e, err := newFsEnv()
	if err != nil {
		return nil, err
	}
	if err := e.selfTest(); err != nil {
		e.close()
		return nil, err
	}
	r.st.add("fs_selftest_ok", 1)
	r.env = e
	return e, nil
}

var errHarness = errors.New("harness")

// runCase evaluates one case. key == "" means no refuting observation. herr != nil means the
// harness itself could not run the case (inconclusive, never a violation).
func (r *runner) runCase(cs *Case) (key, expected, observed string, herr error) {
	if cs.Mode == "hist" {
		return r.runHist(cs)
	}
	if cs.Mode == "conc" {
		return r.runConc(cs)
	}
	st := r.st
	p := string(cs.Path)
	base := cs.Base
	var in *inside
	if cs.Mode == "fs" {
		e, err := r.fs()
		if err != nil {
			return "", "", "", fmt.Errorf("%w: canary tree: %v", errHarness, err)
		}
		if err := e.chdir(cs.Chdir); err != nil {
			return "", "", "", fmt.Errorf("%w: chdir: %v", errHarness, err)
		}
		if in, err = e.insideOf(cs.Dir); err != nil {
			return "", "", "", fmt.Errorf("%w: walk: %v", errHarness, err)
		}
		base = strings.Replace(base, "$T", e.T, 1)
	}
	id := fmt.Sprintf("base=%s:path=%s", q(cs.Base), q(p))

	got, pan := resolve(base, p)
	snap := strings.Clone(got) // what the caller was given, before anything else is asked
	if pan != nil {
		return "panic:" + id, "no panic", fmt.Sprintf("panic: %v", pan), nil
	}
	cs.Got = got

	cb, exp, climbs := expectedFor(base, p)
	df := dotFree(p)
	if climbs > 0 {
		st.add("climb_attempts", 1)
	}
	if df {
		st.add("dotfree_paths", 1)
	}

	// ---- oracle 2: the kernel judges -------------------------------------------------------
	if in != nil {
		fi, err := os.Stat(got)
		switch {
		case err == nil:
			k := statKey(fi)
			rel, ok := in.inodes[k]
			if fi.Mode().IsRegular() {
				b, rerr := os.ReadFile(got)
				if rerr == nil && !in.contents[string(b)] {
					return "fs-read-outside:" + id, "content of a file inside " + cs.Dir + " or an error",
						fmt.Sprintf("ReadFile(%q) returned %q (cwd %q)", got, b, cs.Chdir), nil
				}
				st.add("fs_read_inside", 1)
			}
			if !ok {
				return "fs-stat-outside:" + id, "an entry of the tree below " + cs.Dir + " or an error",
					fmt.Sprintf("Stat(%q) reached inode %v, which is not inside the base (cwd %q)", got, k, cs.Chdir), nil
			}
			st.add("fs_hit_inside", 1)
			if rel != "." {
				st.add("fs_hit_inside_below_base", 1)
			}
		case errors.Is(err, syscall.ENOENT), errors.Is(err, syscall.ENOTDIR):
			st.add("fs_enoent", 1)
		default:
			st.add("fs_other_errno", 1)
		}
		if df {
			// kernel form of the second clause: a dot-free path that names an existing entry of
			// the base must reach exactly that entry
			us, _ := urlSegments(p)
			want := "."
			if len(us) > 0 {
				want = strings.Join(us, "/")
			}
			if wk, ok := in.byRel[want]; ok {
				st.add("fs_dotfree_entry_checked", 1)
				if err != nil {
					return "fs-dotfree-miss:" + id, "Stat reaches " + cs.Dir + "/" + want,
						fmt.Sprintf("Stat(%q): %v (cwd %q)", got, err, cs.Chdir), nil
				}
				if statKey(fi) != wk {
					return "fs-dotfree-miss:" + id, "Stat reaches " + cs.Dir + "/" + want,
						fmt.Sprintf("Stat(%q) reached %s/%s (cwd %q)", got, cs.Dir, in.inodes[statKey(fi)], cs.Chdir), nil
				}
			}
		}
	}

	// ---- oracle 1: lexical -----------------------------------------------------------------
	if got == "" {
		return "empty-result:" + id, exp.String(), `""`, nil
	}
	gl := normalize(got)
	if !under(cb, gl) {
		return "escape:" + id, fmt.Sprintf("%q or a path beneath it (model: %q)", cb.String(), exp.String()),
			fmt.Sprintf("%q", got), nil
	}
	es := exp.String()
	if gl.String() != es {
		if df {
			return "dotfree-join:" + id, fmt.Sprintf("%q (base joined with the segments of the dot-free path)", es),
				fmt.Sprintf("%q", got), nil
		}
		if strictModelEquality {
			return "model-mismatch:" + id, fmt.Sprintf("%q", es), fmt.Sprintf("%q", got), nil
		}
		st.add("dotted_differs_from_model", 1)
		if len(r.notes) < 3 {
			r.notes = append(r.notes, fmt.Sprintf("contained but differs from the model on a dotted path: ResolveUrlPath(%q, %q) = %q, model %q", base, p, got, es))
		}
	} else if got == es {
		st.add("exact_model_agreement", 1)
	} else if df {
		// second clause of the statement: for a dot-free path the result IS the base joined with
		// the path, i.e. the joined path in its clean form (what filepath.Join yields) - the same
		// location spelt with a trailing slash, "//", "/." or "x/.." left in is not that
		return "dotfree-unclean:" + id, fmt.Sprintf("%q exactly (the cleaned base joined with the segments of the dot-free path)", es),
			fmt.Sprintf("%q (the same location, but not the joined path: the base or the path went in uncleaned)", got), nil
	} else {
		st.add("agreement_after_normalisation_only", 1)
	}
	// ---- retained results: what was returned earlier must still read the same -------------
	return r.retain(cs, base, got, snap)
}

// ---------------------------------------------------------------------------------------

type mon struct{}

func (mon) Name() string { return "urlpath" }

func (mon) Level(string) (string, string) {
	return "exploration", "exhaustive: every string up to the stated length over {'/','.','a','\\'} x 12 spellings of the base (lexical model) and x 5 absolute + 7 relative (after chdir) spellings of a base inside a temporary tree with secrets outside (kernel-judged: inode and content reached by stat/open of the result); plus seeded random longer paths (segments '..', '...', '. .', '%2e%2e', backslash forms, SECRET, arbitrary NUL-free bytes) and random bases. distinct_nontrivial = distinct URL paths whose evaluation discards at least one '..' at the root of the URL path, i.e. that try to climb out of the base (lexical shards), and distinct (base, path) pairs of that kind (canary shards). History shards: sequences of calls in one process, each call judged by the same oracles - for bases with '..' inside and every textual cut base = A + rest at a '/', the two different questions (base, p) and (A, rest+p) with the same concatenation, back to back (each twice), in both orders (separate processes) and in batches of 40 / 250 such groups (first calls of all groups, then the counterpart calls), lexically and inside the canary tree; plus random segment strings all of whose cuts are asked in random order; distinct_nontrivial there = distinct colliding pairs. Retained results: in every shard the results of the last 64 calls are kept exactly as returned next to a copy taken at return; after every call the 4 most recent, every 16 calls and at the end all kept strings must still equal their copy (a changed one is judged again for containment); plus concurrent scenarios (4 / 16 goroutines with bases of their own calling at once, each checking its own 32 kept results after each of its calls). Byte sweep: every byte 0x01..0xff and 9 multi-byte runes in the first, the last and a middle position of 21 short climbing path shapes x 12 bases lexically and x the 12 canary spellings. Trivial paths ('', '/', '//', '///', '.', '/.', './', '/./', 'a', '/a', '/a/', 'a/', 'a//a') x 34 bases that are not in clean form plus the 94 further spellings, and x all 35 canary spellings: for the dot-free ones the result must be the cleaned join exactly. The thorough tier adds, with the same oracles: the first alphabet exhaustively to length 11 (12 bases) and 12 (4 bases) lexically and to length 10 in the canary tree; a second alphabet of 12 symbols ('/', '.', 'a', '\\', '%', '%2e', ' ', ':', '~', 0x01, a two-byte rune, a lone 0xff) to length 6 (12 bases, canary to 5) and 7 (4 bases); a third alphabet whose symbols are whole segments ('/', '..', '.', 'a', '//', '/../', '\\', 'SECRET') to length 7 (canary 6); 94 further spellings of the base (relative, '..' inside, trailing slashes, blanks and dots, symlink-like names, backslashes, Unicode and non-UTF-8 bytes, 3-5 KiB long) under the first alphabet to length 9 (long ones 7), the other alphabets shorter, and under random paths; 23 further spellings of the canary bases to length 8; long paths (thousands of segments, '..' runs up to 6000 deep, single segments of 4-16 KiB, random NUL-free byte strings up to 8 KiB) lexically and in the canary tree; histories with paths to length 6, batches of 1000 groups, seeded shuffles of 300 groups, the further bases with all their cuts, and 4 M random cut families; concurrent scenarios with 2..64 goroutines at GOMAXPROCS 2, 4 and 16, and with 4 / 16 goroutines in a -race build made by the shard itself (a race report with a glb frame or a runtime crash is a violation)"
}

func (mon) Assumptions(string) []string {
	return []string{
		"POSIX: '/' is the only separator, a backslash is an ordinary file-name byte",
		"a dot segment is a segment equal to '.' or '..'; '...', '. .', '%2e%2e' are ordinary names (no percent-decoding is part of ResolveUrlPath)",
		"'lies beneath the base' is judged after lexical normalisation of the returned path by the monitor's own segment stack (no path.Clean / filepath.Clean / filepath.Join in the model)",
		"'the base joined with the path' (dot-free paths) is the joined path in clean form, as filepath.Join yields it: the result must equal the model's string exactly (cleaned base + '/' + segments); the same location spelt uncleaned (trailing slash, '//', '/.', 'x/..' left in) is reported as dotfree-unclean. For paths with dot segments a contained result in non-canonical form is only counted",
		"for URL paths containing dot segments the statement prescribes containment only; a contained result that differs from the segment-stack model is counted (dotted_differs_from_model) and noted, not reported as a violation",
		"a returned path is a value: the string handed to the caller must keep reading the same (and stay inside its base) while later calls are made, in the same or in other goroutines",
		"empty base excluded; no symbolic links inside the canary tree",
		"canary: base '/' is not used with the file system (everything is beneath it)",
	}
}

func (mon) Finish(prop, tier string, m *drv.Merged) []string {
	var out []string
	need := []string{"fs_selftest_ok", "fs_hit_inside_below_base", "fs_read_inside", "fs_dotfree_entry_checked", "climb_attempts", "dotfree_paths", "fs_rel_cases", "fs_abs_cases", "exact_model_agreement", "hist_calls", "hist_colliding_pairs", "hist_fs_calls", "retained_checks", "conc_calls", "conc_retained_checks", "byte_sweep_cases", "trivial_dotfree_on_unclean_base"}
	if tier == "thorough" {
		need = append(need, "alphabet2_cases", "alphabet3_cases", "extra_bases_cases", "extra_canary_bases_cases", "long_path_cases",
			"hist_shuffled_histories", "hist_wide_pairs", "race_binary_built", "race_conc_calls")
	}
	for _, k := range need {
		if m.Sum[k] == 0 {
			out = append(out, "observed no "+k)
		}
	}
	return out
}

type shardArgs struct {
	Kind   string `json:"kind"`            // "lex-exh" | "lex-rand" | "fs-exh" | "fs-rand" | "hist-lex" | "hist-fs" | "hist-split"
	Rev    bool   `json:"rev,omitempty"`   // hist: the call on the textual prefix of the base comes first
	Batch  int    `json:"batch,omitempty"` // hist: number of pairs whose first calls precede their second calls
	Rel    bool   `json:"rel,omitempty"`
	MaxLen int    `json:"max_len,omitempty"`
	Part   int    `json:"part"`
	Parts  int    `json:"parts"`
	Count  int    `json:"count,omitempty"`
	Bases  string `json:"bases,omitempty"`   // thorough: "xshort" | "xlong" | "xall" = the additional spellings of the base
	Alpha  int    `json:"alpha,omitempty"`   // thorough: 2 = the second, wider alphabet
	Wide   bool   `json:"wide,omitempty"`    // thorough history shards: the additional bases, all their cuts
	MinLen int    `json:"min_len,omitempty"` // thorough exhaustive shards: shortest length enumerated
}

func (mon) Plan(prop, tier string, seed int64) []drv.Shard {
	type cfg struct {
		lexLen, lexParts, lexRand, lexRandParts     int
		fsLen, fsAbsParts, fsAbsRand, fsAbsRandPart int
		fsRelParts, fsRelRand                       int
	}
	c := cfg{lexLen: 8, lexParts: 8, lexRand: 40000, lexRandParts: 4, fsLen: 7, fsAbsParts: 4, fsAbsRand: 10000, fsAbsRandPart: 2, fsRelParts: 1, fsRelRand: 6000}
	if tier == "thorough" {
		c = cfg{lexLen: 10, lexParts: 16, lexRand: 4000000, lexRandParts: 16, fsLen: 9, fsAbsParts: 12, fsAbsRand: 400000, fsAbsRandPart: 8, fsRelParts: 2, fsRelRand: 200000}
	}
	var out []drv.Shard
	add := func(name string, solo bool, a shardArgs) {
		b, _ := json.Marshal(a)
		secs := 600
		if tier == "thorough" {
			secs = 2400 // generous: the machine may be heavily loaded
		}
		out = append(out, drv.Shard{Name: name, Args: b, Solo: solo, Secs: secs})
	}
	for p := 0; p < c.lexParts; p++ {
		add(fmt.Sprintf("lex-exh-%d", p), false, shardArgs{Kind: "lex-exh", MaxLen: c.lexLen, Part: p, Parts: c.lexParts})
	}
	for p := 0; p < c.lexRandParts; p++ {
		add(fmt.Sprintf("lex-rand-%d", p), false, shardArgs{Kind: "lex-rand", Part: p, Parts: c.lexRandParts, Count: c.lexRand / c.lexRandParts})
	}
	for p := 0; p < c.fsAbsParts; p++ {
		add(fmt.Sprintf("fs-abs-exh-%d", p), false, shardArgs{Kind: "fs-exh", MaxLen: c.fsLen, Part: p, Parts: c.fsAbsParts})
	}
	for p := 0; p < c.fsAbsRandPart; p++ {
		add(fmt.Sprintf("fs-abs-rand-%d", p), false, shardArgs{Kind: "fs-rand", Part: p, Parts: c.fsAbsRandPart, Count: c.fsAbsRand / c.fsAbsRandPart})
	}
	// relative bases need chdir (process-global state): Solo shards
	for p := 0; p < c.fsRelParts; p++ {
		add(fmt.Sprintf("fs-rel-exh-%d", p), true, shardArgs{Kind: "fs-exh", Rel: true, MaxLen: c.fsLen, Part: p, Parts: c.fsRelParts})
		add(fmt.Sprintf("fs-rel-rand-%d", p), true, shardArgs{Kind: "fs-rand", Rel: true, Part: p, Parts: c.fsRelParts, Count: c.fsRelRand / c.fsRelParts})
	}
	// history shards: one process per (order, distance), so that every colliding pair is fresh
	hl, hs, hsParts := 3, 6000, 2
	if tier == "thorough" {
		hl, hs, hsParts = 5, 400000, 8
	}
	for _, rev := range []bool{false, true} {
		for _, batch := range []int{1, 40, 250} {
			n := fmt.Sprintf("%s-d%d", map[bool]string{false: "fwd", true: "rev"}[rev], batch)
			add("hist-lex-"+n, false, shardArgs{Kind: "hist-lex", Rev: rev, Batch: batch, MaxLen: hl})
			add("hist-fs-abs-"+n, false, shardArgs{Kind: "hist-fs", Rev: rev, Batch: batch, MaxLen: hl})
			add("hist-fs-rel-"+n, true, shardArgs{Kind: "hist-fs", Rel: true, Rev: rev, Batch: batch, MaxLen: hl})
		}
	}
	for p := 0; p < hsParts; p++ {
		add(fmt.Sprintf("hist-split-%d", p), false, shardArgs{Kind: "hist-split", Part: p, Parts: hsParts, Count: hs / hsParts})
	}
	// concurrent retained-result scenarios (the pool / cache of an implementation is shared)
	cc := 20000
	if tier == "thorough" {
		cc = 400000
	}
	for _, g := range []int{4, 16} {
		add(fmt.Sprintf("retain-conc-g%d", g), false, shardArgs{Kind: "retain-conc", Parts: g, Count: cc})
	}
	// byte sweep: every byte (and a few runes) first / last / in the middle of climbing paths
	add("byte-sweep-lex", false, shardArgs{Kind: "byte-sweep"})
	add("byte-sweep-fs-abs", false, shardArgs{Kind: "byte-sweep-fs"})
	add("byte-sweep-fs-rel", true, shardArgs{Kind: "byte-sweep-fs", Rel: true})
	// trivial paths ("", "/", "//", ...) against bases that are not in clean form (the canary
	// spellings of that kind run inside the byte-sweep-fs shards)
	add("trivial-unclean-bases", false, shardArgs{Kind: "trivial"})
	if tier == "thorough" {
		out = append(out, planDeep(add)...)
	}
	return out
}

// planDeep: the additional shards of the thorough tier (diversity: longer exhaustive sweeps, a
// second alphabet, many more bases, long paths, more histories, more concurrency, -race).
func planDeep(add func(name string, solo bool, a shardArgs)) []drv.Shard {
	var extra []drv.Shard
	parts := func(kind string, n int, solo bool, a shardArgs) {
		for p := 0; p < n; p++ {
			a.Part, a.Parts = p, n
			add(idxName(kind, p), solo, a)
		}
	}
	// first alphabet, one character longer than the base plan (lexical 11, canary 10)
	parts("lex-exh11", 32, false, shardArgs{Kind: "lex-exh", MinLen: 11, MaxLen: 11})
	parts("fs-abs-exh10", 8, false, shardArgs{Kind: "fs-exh", MinLen: 10, MaxLen: 10})
	parts("fs-rel-exh10", 4, true, shardArgs{Kind: "fs-exh", Rel: true, MinLen: 10, MaxLen: 10})
	// second alphabet (12 symbols), shorter
	parts("lex-exh-alpha2", 16, false, shardArgs{Kind: "lex-exh", Alpha: 2, MaxLen: 6})
	parts("fs-abs-exh-alpha2", 4, false, shardArgs{Kind: "fs-exh", Alpha: 2, MaxLen: 5})
	parts("fs-rel-exh-alpha2", 1, true, shardArgs{Kind: "fs-exh", Alpha: 2, Rel: true, MaxLen: 5})
	// third alphabet: whole segments as symbols (deep traversal shapes)
	parts("lex-exh-alpha3", 8, false, shardArgs{Kind: "lex-exh", Alpha: 3, MaxLen: 7})
	parts("lex-exh-alpha3-xbases", 8, false, shardArgs{Kind: "lex-exh", Alpha: 3, Bases: "xshort", MaxLen: 6})
	parts("fs-abs-exh-alpha3", 4, false, shardArgs{Kind: "fs-exh", Alpha: 3, MaxLen: 6})
	parts("fs-rel-exh-alpha3", 1, true, shardArgs{Kind: "fs-exh", Alpha: 3, Rel: true, MaxLen: 6})
	// second alphabet one symbol longer and first alphabet two characters longer, on four bases
	parts("lex-exh-alpha2-len7", 16, false, shardArgs{Kind: "lex-exh", Alpha: 2, Bases: "four", MinLen: 7, MaxLen: 7})
	parts("lex-exh12", 16, false, shardArgs{Kind: "lex-exh", Bases: "four", MinLen: 12, MaxLen: 12})
	// further spellings of the canary bases
	parts("fs-abs-exh-xfs", 4, false, shardArgs{Kind: "fs-exh", Bases: "xfs", MaxLen: 8})
	parts("fs-rel-exh-xfs", 1, true, shardArgs{Kind: "fs-exh", Bases: "xfs", Rel: true, MaxLen: 8})
	// many more bases
	parts("lex-exh-xbases", 16, false, shardArgs{Kind: "lex-exh", Bases: "xshort", MaxLen: 9})
	parts("lex-exh-xlong", 4, false, shardArgs{Kind: "lex-exh", Bases: "xlong", MaxLen: 7})
	parts("lex-exh-alpha2-xbases", 8, false, shardArgs{Kind: "lex-exh", Alpha: 2, Bases: "xshort", MaxLen: 4})
	parts("lex-rand-xbases", 16, false, shardArgs{Kind: "lex-rand", Bases: "xall", Count: 500000})
	// very long paths, byte strings of several KiB
	parts("lex-long", 16, false, shardArgs{Kind: "lex-long", Count: 40000})
	parts("fs-abs-long", 4, false, shardArgs{Kind: "fs-long", Count: 20000})
	parts("fs-rel-long", 1, true, shardArgs{Kind: "fs-long", Rel: true, Count: 20000})
	// more histories: longer paths, larger distances, shuffled orders, the additional bases
	for _, rev := range []bool{false, true} {
		rn := map[bool]string{false: "fwd", true: "rev"}[rev]
		for _, batch := range []int{1, 40, 250, 1000, -300} {
			n := fmt.Sprintf("%s-d%d", rn, batch)
			if batch < 0 {
				n = fmt.Sprintf("%s-shuffle%d", rn, -batch)
			}
			add("hist6-lex-"+n, false, shardArgs{Kind: "hist-lex", Rev: rev, Batch: batch, MaxLen: 6})
			add("hist-wide-"+n, false, shardArgs{Kind: "hist-lex", Wide: true, Rev: rev, Batch: batch, MaxLen: 4})
			if batch == 1000 || batch < 0 {
				add("hist6-fs-abs-"+n, false, shardArgs{Kind: "hist-fs", Rev: rev, Batch: batch, MaxLen: 6})
				add("hist6-fs-rel-"+n, true, shardArgs{Kind: "hist-fs", Rel: true, Rev: rev, Batch: batch, MaxLen: 5})
			}
		}
	}
	parts("hist-split-deep", 16, false, shardArgs{Kind: "hist-split", Count: 250000, Wide: true})
	// more concurrency: 2..64 goroutines at GOMAXPROCS 2, 4, 16
	for _, gmp := range []int{2, 4, 16} {
		for _, g := range []int{2, 8, 64} {
			b, _ := json.Marshal(shardArgs{Kind: "retain-conc", Parts: g, Count: 400000 / g * 4})
			extra = append(extra, drv.Shard{Name: fmt.Sprintf("retain-conc-g%d-p%d", g, gmp), Args: b, Secs: 2400, Env: []string{fmt.Sprintf("GOMAXPROCS=%d", gmp)}})
		}
	}
	// the same under the race detector (binary built by the shard itself)
	for _, g := range []int{4, 16} {
		b, _ := json.Marshal(shardArgs{Kind: "conc-race", Parts: g, Count: 100000})
		extra = append(extra, drv.Shard{Name: fmt.Sprintf("conc-race-g%d", g), Args: b, Secs: 2400})
	}
	return extra
}

// the 12 spellings of the base of DESIGN.md
var lexBases = []string{"/data", "/data/", "/", ".", "./", "..", "data", "a/../b", "/x/../data", "../up", "a/b/../..", "/data//sub/."}

const alphabet = "/.a\\"

// forEachPath enumerates all strings of length 0..maxLen over the alphabet, shortest first, and
// calls f for those whose running index falls into the part.
func forEachPath(maxLen, part, parts int, f func(idx int, p []byte) bool) {
	idx := 0
	for l := 0; l <= maxLen; l++ {
		n := 1
		for i := 0; i < l; i++ {
			n *= len(alphabet)
		}
		buf := make([]byte, l)
		for v := 0; v < n; v++ {
			idx++
			// multiplicative mixing: idx%parts alone would tie a part to the last characters
			if int((uint32(idx)*2654435761)>>12)%parts != part {
				continue
			}
			x := v
			for i := l - 1; i >= 0; i-- {
				buf[i] = alphabet[x%len(alphabet)]
				x /= len(alphabet)
			}
			if !f(idx, append([]byte(nil), buf...)) {
				return
			}
		}
	}
}

// enumPaths enumerates the paths of an exhaustive shard. The default (first alphabet from length
// 0) is forEachPath; the thorough tier also uses the second alphabet and a minimum length.
func enumPaths(a shardArgs, f func(idx int, p []byte) bool) {
	switch {
	case a.Alpha == 2:
		forEachSyms(syms2, a.MinLen, a.MaxLen, a.Part, a.Parts, f)
	case a.Alpha == 3:
		forEachSyms(syms3, a.MinLen, a.MaxLen, a.Part, a.Parts, f)
	case a.MinLen > 0:
		forEachSyms([]string{"/", ".", "a", "\\"}, a.MinLen, a.MaxLen, a.Part, a.Parts, f)
	default:
		forEachPath(a.MaxLen, a.Part, a.Parts, f)
	}
}

var segPool = []struct {
	s string
	w int
}{
	{"..", 24}, {".", 8}, {"", 5}, {"a", 14}, {"SECRET", 8}, {"base", 3}, {"sub", 3}, {"r", 2}, {"C", 2}, {"up", 2}, {"data", 2}, {"b", 2}, {"x", 1},
	{"...", 3}, {"....", 1}, {". .", 2}, {".. ", 2}, {" ..", 2}, {" ", 1}, {"%2e%2e", 3}, {"%2e", 1}, {"%2E%2E", 1}, {"..%2f", 2}, {"%2e%2e%2f..", 1}, {".%2e", 1},
	{"..\\", 2}, {"\\..", 2}, {"..\\..", 2}, {"a\\..\\..", 1}, {"\\", 2}, {"..\\SECRET", 1}, {"..;", 1}, {"..;x=1", 1}, {"~", 1},
	{"．．", 1}, {"\xc0\xae\xc0\xae", 1}, {".\x01.", 1}, {"..\x7f", 1}, {"‥", 1}, {".\t.", 1}, {"..\n", 1}, {"\r..", 1},
}

var segTotal = func() int {
	t := 0
	for _, s := range segPool {
		t += s.w
	}
	return t
}()

func pick(r *rand.Rand) string {
	x := r.Intn(segTotal)
	for _, s := range segPool {
		if x < s.w {
			return s.s
		}
		x -= s.w
	}
	return ".."
}

func randBytes(r *rand.Rand, n int) []byte {
	b := make([]byte, n)
	for i := range b {
		switch x := r.Intn(100); {
		case x < 28:
			b[i] = '/'
		case x < 62:
			b[i] = '.'
		case x < 72:
			b[i] = 'a'
		case x < 78:
			b[i] = '\\'
		default:
			b[i] = byte(1 + r.Intn(255)) // NUL-free
		}
	}
	return b
}

func randPath(r *rand.Rand) []byte {
	if r.Intn(10) < 3 {
		return randBytes(r, 1+r.Intn(64))
	}
	var sb strings.Builder
	switch x := r.Intn(20); {
	case x < 10:
		sb.WriteString("/")
	case x < 16:
	case x == 16:
		sb.WriteString("\\")
	case x == 17:
		sb.WriteString("//")
	case x == 18:
		sb.WriteString("./")
	default:
		sb.WriteString("../")
	}
	n := 1 + r.Intn(12)
	if r.Intn(25) == 0 {
		n = 20 + r.Intn(200)
	}
	for i := 0; i < n; i++ {
		if i > 0 {
			switch x := r.Intn(100); {
			case x < 80:
				sb.WriteString("/")
			case x < 88:
				sb.WriteString("//")
			case x < 94:
				sb.WriteString("\\")
			default:
				sb.WriteString("/./")
			}
		}
		if r.Intn(12) == 0 {
			sb.Write(randBytes(r, 1+r.Intn(6)))
		} else {
			sb.WriteString(pick(r))
		}
	}
	switch r.Intn(8) {
	case 0:
		sb.WriteString("/")
	case 1:
		sb.WriteString("/.")
	case 2:
		sb.WriteString("/..")
	}
	return []byte(sb.String())
}

var baseSegs = []string{"a", "b", "data", "..", "..", ".", "", "x y", "\\", "sub", "...", "..a", "a..", "SECRET"}

func randBase(r *rand.Rand) string {
	if r.Intn(2) == 0 {
		return lexBases[r.Intn(len(lexBases))]
	}
	for {
		var sb strings.Builder
		switch r.Intn(5) {
		case 0, 1:
			sb.WriteString("/")
		case 2:
			sb.WriteString("//")
		}
		n := 1 + r.Intn(5)
		for i := 0; i < n; i++ {
			if i > 0 {
				if r.Intn(6) == 0 {
					sb.WriteString("//")
				} else {
					sb.WriteString("/")
				}
			}
			sb.WriteString(baseSegs[r.Intn(len(baseSegs))])
		}
		if r.Intn(4) == 0 {
			sb.WriteString("/")
		}
		if sb.Len() > 0 {
			return sb.String()
		}
	}
}

func (mn mon) Run(sh drv.Shard, c *drv.Ctx) {
	var a shardArgs
	json.Unmarshal(sh.Args, &a)
	st := &stats{m: map[string]int64{}}
	rn := &runner{st: st}
	defer func() { rn.env.close() }()
	bad := 0
	exec := func(cs Case) bool {
		if cs.Mode == "hist" {
			c.Progress(fmt.Sprintf("hist of %d calls starting (%s, %s)", len(cs.Seq), q(cs.Seq[0].Base), q(string(cs.Seq[0].Path))), false)
		} else {
			c.Progress(cs.Mode+" "+q(cs.Base)+" "+q(string(cs.Path)), false)
		}
		k, e, o, herr := rn.runCase(&cs)
		if herr != nil {
			c.Inconclusive(herr.Error())
			return false
		}
		c.Eval(1)
		if k != "" {
			if cs.Mode != "hist" {
				cs.PathQ = strconv.QuoteToASCII(string(cs.Path))
			}
			c.Violate(k, cs, e, o)
			bad++
			return bad < 5
		}
		return true
	}
	sampleEvery := func(cs Case, cond bool) {
		if cond && c.NumSamples() < 3 {
			cp := cs
			cp.PathQ = strconv.QuoteToASCII(string(cs.Path))
			g, _ := resolve(cs.Base, string(cs.Path))
			c.Sample(map[string]any{"mode": cs.Mode, "base": cs.Base, "path": cp.PathQ, "result": strconv.QuoteToASCII(g)})
		}
	}
	fsb := fsAbsBases
	fsKey := "fs_abs_cases"
	if a.Rel {
		fsb, fsKey = fsRelBases, "fs_rel_cases"
	}
	if a.Bases == "xfs" { // thorough: further spellings of the canary bases
		fsb = fsAbsBasesX
		if a.Rel {
			fsb = fsRelBasesX
		}
	}
	switch a.Kind {
	case "lex-exh":
		bases, tag := lexBases, ""
		switch a.Bases {
		case "xshort":
			bases = xBasesShort
		case "xlong":
			bases = xBasesLong
		case "four":
			bases = []string{"/data", "../up", "a/../b", "./"}
		}
		if a.Bases != "" || a.Alpha >= 2 {
			tag = fmt.Sprintf("%s\x00%d\x00", a.Bases, a.Alpha)
		}
		enumPaths(a, func(idx int, p []byte) bool {
			_, climbs := urlSegments(string(p))
			if climbs > 0 {
				c.DistinctStr(tag + string(p))
			}
			if a.Alpha >= 2 {
				st.add(fmt.Sprintf("alphabet%d_cases", a.Alpha), int64(len(bases)))
			}
			if a.Bases != "" && a.Bases != "four" {
				st.add("extra_bases_cases", int64(len(bases)))
			}
			for _, b := range bases {
				cs := Case{Mode: "lex", Base: b, Path: p}
				sampleEvery(cs, a.Part < 2 && c.NumSamples() < 1 && climbs > 1 && len(p) == a.MaxLen && b == "../up")
				if !exec(cs) {
					return false
				}
			}
			return true
		})
		switch {
		case a.Bases == "four" && a.Alpha >= 2:
			c.MaxOf(fmt.Sprintf("exhaustive_len_alphabet%d_4bases", a.Alpha), int64(a.MaxLen))
		case a.Bases == "four":
			c.MaxOf("exhaustive_len_lexical_4bases", int64(a.MaxLen))
		case a.Alpha >= 2:
			c.MaxOf(fmt.Sprintf("exhaustive_len_alphabet%d", a.Alpha), int64(a.MaxLen))
		case a.Bases != "":
			c.MaxOf("exhaustive_len_extra_bases", int64(a.MaxLen))
			c.MaxOf("extra_bases", int64(len(bases)))
		default:
			c.MaxOf("exhaustive_len_lexical", int64(a.MaxLen))
		}
	case "lex-rand":
		r := rand.New(rand.NewSource(sh.Seed*1000003 + int64(a.Part)))
		var xall []string
		if a.Bases != "" {
			r = rand.New(rand.NewSource(sh.Seed*1000003 + 32452843 + int64(a.Part)))
			xall = xBasesAll()
		}
		for i := 0; i < a.Count; i++ {
			cs := Case{Mode: "lex", Base: randBase(r), Path: randPath(r)}
			if xall != nil {
				cs = Case{Mode: "lex", Base: xRandBase(r, xall), Path: xRandPath(r)}
				st.add("extra_bases_cases", 1)
				if len(cs.Path) >= 1024 {
					st.add("long_path_cases", 1)
					st.add("long_path_bytes", int64(len(cs.Path)))
				}
			}
			_, climbs := urlSegments(string(cs.Path))
			if climbs > 0 {
				c.DistinctStr(cs.Base + "\x00" + string(cs.Path))
			}
			sampleEvery(cs, i < 2)
			c.MaxOf("random_path_len", int64(len(cs.Path)))
			if !exec(asHistory(cs)) {
				break
			}
		}
	case "fs-exh":
		enumPaths(a, func(idx int, p []byte) bool {
			_, climbs := urlSegments(string(p))
			if a.Alpha >= 2 {
				st.add(fmt.Sprintf("alphabet%d_cases", a.Alpha), int64(len(fsb)))
			}
			if a.Bases == "xfs" {
				st.add("extra_canary_bases_cases", int64(len(fsb)))
			}
			for _, b := range fsb {
				cs := Case{Mode: "fs", Base: b.Base, Path: p, Dir: b.Dir, Chdir: b.Chdir}
				if climbs > 0 {
					c.DistinctStr("fs\x00" + b.Base + "\x00" + string(p))
				}
				st.add(fsKey, 1)
				if !exec(cs) {
					return false
				}
			}
			return true
		})
		if a.Bases == "xfs" {
			c.MaxOf("exhaustive_len_extra_canary_bases", int64(a.MaxLen))
		} else if a.Alpha >= 2 {
			c.MaxOf(fmt.Sprintf("exhaustive_len_canary_alphabet%d", a.Alpha), int64(a.MaxLen))
		} else {
			c.MaxOf("exhaustive_len_canary", int64(a.MaxLen))
		}
	case "fs-rand":
		r := rand.New(rand.NewSource(sh.Seed*1000003 + 7919 + int64(a.Part)))
		if a.Rel {
			r = rand.New(rand.NewSource(sh.Seed*1000003 + 104729 + int64(a.Part)))
		}
		for i := 0; i < a.Count; i++ {
			b := fsb[r.Intn(len(fsb))]
			cs := Case{Mode: "fs", Base: b.Base, Path: randPath(r), Dir: b.Dir, Chdir: b.Chdir}
			if _, climbs := urlSegments(string(cs.Path)); climbs > 0 {
				c.DistinctStr("fs\x00" + b.Base + "\x00" + string(cs.Path))
			}
			st.add(fsKey, 1)
			if i < 1 {
				c.Sample(map[string]any{"mode": "fs", "base": cs.Base, "chdir": cs.Chdir, "path": strconv.QuoteToASCII(string(cs.Path))})
			}
			if !exec(asHistory(cs)) {
				break
			}
		}
	case "lex-long", "fs-long":
		off := int64(49979687)
		if a.Kind == "fs-long" {
			off = 67867967
			if a.Rel {
				off = 86028121
			}
		}
		r := rand.New(rand.NewSource(sh.Seed*1000003 + off + int64(a.Part)))
		xall := append(xBasesAll(), lexBases...)
		for i := 0; i < a.Count; i++ {
			var cs Case
			if a.Kind == "lex-long" {
				cs = Case{Mode: "lex", Base: xall[r.Intn(len(xall))], Path: longPath(r)}
			} else {
				b := fsb[r.Intn(len(fsb))]
				cs = Case{Mode: "fs", Base: b.Base, Path: longPath(r), Dir: b.Dir, Chdir: b.Chdir}
				st.add(fsKey, 1)
			}
			us, climbs := urlSegments(string(cs.Path))
			if climbs > 0 {
				c.DistinctStr("long\x00" + cs.Base + "\x00" + string(cs.Path))
			}
			st.add("long_path_cases", 1)
			st.add("long_path_bytes", int64(len(cs.Path)))
			c.MaxOf("long_path_max_bytes", int64(len(cs.Path)))
			c.MaxOf("long_path_max_discarded_dotdots", int64(climbs))
			c.MaxOf("long_path_max_result_segments", int64(len(us)))
			if i == 0 && a.Part == 0 {
				c.Sample(map[string]any{"mode": cs.Mode, "base": q(cs.Base), "path_len": len(cs.Path), "path_head": strconv.QuoteToASCII(string(cs.Path[:min(60, len(cs.Path))])), "discarded_dotdots": climbs})
			}
			if !exec(asHistory(cs)) {
				break
			}
		}
	case "trivial":
		bases := append(append([]string(nil), uncleanBases...), xBasesShort...)
		for _, b := range bases {
			for _, p := range trivialPaths {
				st.add("trivial_path_cases", 1)
				if dotFree(p) && normalize(b).String() != b {
					st.add("trivial_dotfree_on_unclean_base", 1)
					c.DistinctStr("trivial\x00" + b + "\x00" + p)
				}
				if !exec(Case{Mode: "lex", Base: b, Path: []byte(p)}) {
					return
				}
			}
		}
	case "byte-sweep", "byte-sweep-fs":
		for _, p := range sweepPaths() {
			_, climbs := urlSegments(string(p))
			ok := true
			if a.Kind == "byte-sweep" {
				if climbs > 0 {
					c.DistinctStr("sweep\x00" + string(p))
				}
				for _, b := range lexBases {
					st.add("byte_sweep_cases", 1)
					if ok = exec(Case{Mode: "lex", Base: b, Path: p}); !ok {
						break
					}
				}
			} else {
				for _, b := range fsb {
					if climbs > 0 {
						c.DistinctStr("sweepfs\x00" + b.Base + "\x00" + string(p))
					}
					st.add("byte_sweep_cases", 1)
					st.add(fsKey, 1)
					if ok = exec(Case{Mode: "fs", Base: b.Base, Path: p, Dir: b.Dir, Chdir: b.Chdir}); !ok {
						break
					}
				}
			}
			if !ok {
				break
			}
		}
		if a.Kind == "byte-sweep-fs" {
			// trivial paths against every spelling of the canary bases, clean or not
			xb := fsAbsBasesX
			if a.Rel {
				xb = fsRelBasesX
			}
			for _, b := range append(append([]fsBase(nil), fsb...), xb...) {
				for _, p := range trivialPaths {
					st.add("trivial_path_cases", 1)
					st.add(fsKey, 1)
					if !exec(Case{Mode: "fs", Base: b.Base, Path: []byte(p), Dir: b.Dir, Chdir: b.Chdir}) {
						return
					}
				}
			}
		}
	case "conc-race":
		runRaceShard(sh, a, c)
	case "hist-lex", "hist-fs":
		groups, pairs := histGroups(a.Kind == "hist-fs", a.Rel, a.MaxLen, a.Wide)
		for _, g := range groups {
			for _, oa := range g.onA {
				c.DistinctStr("hist\x00" + g.onB.Base + "\x00" + oa.Base + "\x00" + string(g.onB.Path))
			}
		}
		st.add("hist_colliding_pairs", int64(pairs))
		if a.Batch < 0 {
			st.add("hist_shuffled_histories", 1)
		}
		if a.Wide {
			st.add("hist_wide_pairs", int64(pairs))
		}
		if a.Batch >= 1000 {
			c.MaxOf("hist_max_batch", int64(a.Batch))
		}
		for i, cs := range histCases(groups, a.Rev, a.Batch, sh.Seed) {
			if i == 0 {
				sq := cs.Seq[:min(4, len(cs.Seq))]
				var ss []string
				for _, cl := range sq {
					ss = append(ss, fmt.Sprintf("(%s, %s)", strconv.QuoteToASCII(cl.Base), strconv.QuoteToASCII(string(cl.Path))))
				}
				c.Sample(map[string]any{"mode": "hist", "shard": sh.Name, "calls_in_history": len(cs.Seq), "first_calls": ss})
			}
			n := len(cs.Seq)
			c.MaxOf("hist_history_len", int64(n))
			if !exec(cs) {
				break
			}
			c.Eval(int64(n - 1))
		}
		if a.Kind == "hist-fs" {
			st.add("hist_fs_calls", st.m["hist_calls"])
		}
	case "retain-conc":
		for rep := 0; rep < 4; rep++ {
			cs := Case{Mode: "conc", Conc: &ConcArgs{G: a.Parts, Calls: a.Count / 4, Seed: sh.Seed*31 + int64(rep)}}
			c.Progress(fmt.Sprintf("conc g=%d calls=%d rep=%d", a.Parts, a.Count/4, rep), true)
			k, e, o, herr := rn.runCase(&cs)
			if herr != nil {
				c.Inconclusive(herr.Error())
				break
			}
			c.DistinctStr(fmt.Sprintf("conc\x00%d\x00%d", a.Parts, rep))
			if k != "" {
				c.Violate(k, cs, e, o)
				break
			}
		}
		c.Eval(st.m["conc_calls"])
		c.MaxOf("conc_goroutines", int64(a.Parts))
	case "hist-split":
		r := rand.New(rand.NewSource(sh.Seed*1000003 + 15485863 + int64(a.Part)))
		for i := 0; i < a.Count; i++ {
			cs := randSplitCase(r, a.Wide)
			c.DistinctStr("split\x00" + cs.Seq[0].concat())
			n := len(cs.Seq)
			if !exec(cs) {
				break
			}
			c.Eval(int64(n - 1))
		}
	}
	if k, e, o, cs := rn.finalSweep(); k != "" {
		c.Violate(k, cs, e, o)
	}
	for k, v := range st.m {
		if v != 0 {
			c.Add(k, v)
		}
	}
	for _, n := range rn.notes {
		c.Note(n)
	}
}

func (mn mon) Replay(v drv.Violation, c *drv.Ctx) {
	var cs Case
	if err := json.Unmarshal(v.Case, &cs); err != nil {
		c.Inconclusive("replay: cannot decode case: " + err.Error())
		return
	}
	if cs.Mode != "lex" && cs.Mode != "fs" && !(cs.Mode == "hist" && len(cs.Seq) > 0) && !(cs.Mode == "conc" && cs.Conc != nil) {
		c.Inconclusive("replay: not a (base, path) case (crash records are replayed by re-running the check)")
		fmt.Fprintln(os.Stderr, "replay: the recorded case is not a (base, path) case")
		return
	}
	rn := &runner{st: &stats{m: map[string]int64{}}}
	defer func() { rn.env.close() }()
	k, e, o, herr := rn.runCase(&cs)
	if herr != nil {
		c.Inconclusive(herr.Error())
		fmt.Fprintln(os.Stderr, "replay: ", herr)
		return
	}
	c.Eval(1)
	if k == "" {
		k, e, o, cs = rn.finalSweep()
	}
	if k != "" {
		c.Violate(k, cs, e, o)
	}
}

func main() { drv.Main(mon{}) }
