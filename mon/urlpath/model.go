package main

import "strings"

// The lexical reference model of C17. Nothing in this file calls path.Clean, filepath.Clean or
// filepath.Join: the expected value is computed by two small segment stacks.

// lpath is a lexically normalised POSIX file path: absolute or relative, no "" / "." segments,
// ".." only as a leading run of a relative path.
type lpath struct {
	abs  bool
	segs []string
}

// normalize evaluates a POSIX file path string with a segment stack:
// "" and "." are skipped; ".." removes the preceding ordinary segment, is dropped at the root of
// an absolute path and is kept in front of a relative path.
func normalize(p string) lpath {
	l := lpath{abs: len(p) > 0 && p[0] == '/'}
	for _, s := range strings.Split(p, "/") {
		switch s {
		case "", ".":
		case "..":
			n := len(l.segs)
			switch {
			case n > 0 && l.segs[n-1] != "..":
				l.segs = l.segs[:n-1]
			case !l.abs:
				l.segs = append(l.segs, "..")
			}
		default:
			l.segs = append(l.segs, s)
		}
	}
	return l
}

func (l lpath) String() string {
	j := strings.Join(l.segs, "/")
	if l.abs {
		return "/" + j
	}
	if j == "" {
		return "."
	}
	return j
}

// urlSegments evaluates a URL path against its own root: "" and "." are skipped, ".." removes the
// preceding segment but never climbs past the root of the URL path. climbs = number of ".."
// discarded at the root (attempts to leave the base).
func urlSegments(p string) (segs []string, climbs int) {
	for _, s := range strings.Split(p, "/") {
		switch s {
		case "", ".":
		case "..":
			if n := len(segs); n > 0 {
				segs = segs[:n-1]
			} else {
				climbs++
			}
		default:
			segs = append(segs, s)
		}
	}
	return
}

// dotFree reports whether no segment of the URL path is "." or "..".
func dotFree(p string) bool {
	for _, s := range strings.Split(p, "/") {
		if s == "." || s == ".." {
			return false
		}
	}
	return true
}

// under reports whether l is b itself or lies beneath b (both normalised).
func under(b, l lpath) bool {
	if b.abs != l.abs || len(l.segs) < len(b.segs) {
		return false
	}
	for i, s := range b.segs {
		if l.segs[i] != s {
			return false
		}
	}
	// in a normalised relative path ".." can only follow "..": a ".." right after the base's
	// segments climbs out of it
	return len(l.segs) == len(b.segs) || l.segs[len(b.segs)] != ".."
}

// expectedFor returns the cleaned base and the expected result for (base, url path).
func expectedFor(base, urlPath string) (cb, exp lpath, climbs int) {
	cb = normalize(base)
	us, climbs := urlSegments(urlPath)
	exp = lpath{abs: cb.abs, segs: append(append([]string(nil), cb.segs...), us...)}
	return cb, exp, climbs
}
