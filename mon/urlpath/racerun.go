package main

import (
	"encoding/json"
	"fmt"
	"os"
	"os/exec"
	"path/filepath"
	"regexp"
	"runtime/debug"
	"strings"
	"syscall"
	"time"

	"verif/internal/drv"
)

// Concurrent callers under the race detector. ./check builds no -race binary for this monitor,
// so the shard builds one itself (same sources, same glb checkout as the running binary, which
// it reads from its own build information) and runs the concurrent scenarios in it as a
// grandchild process. Race reports are parsed with the driver's parser; a report whose racing
// access is in glb code is a violation (the function must stay pure), so is a runtime crash
// (e.g. "concurrent map writes").

func glbCheckout() string {
	bi, ok := debug.ReadBuildInfo()
	if !ok {
		return ""
	}
	for _, d := range bi.Deps {
		if d.Path == "github.com/whoisnian/glb" && d.Replace != nil {
			return d.Replace.Path
		}
	}
	return ""
}

var raceCrashRe = regexp.MustCompile(`(?m)^(fatal error: .*|panic: .*|unexpected fault address.*|SIGSEGV.*)$`)

func runRaceShard(sh drv.Shard, a shardArgs, c *drv.Ctx) {
	root := os.Getenv("VERIF_ROOT")
	if root == "" {
		root = "/verif"
	}
	repo := glbCheckout()
	if repo == "" {
		c.Inconclusive("race variant: cannot read the glb checkout from the build information")
		return
	}
	tmp, err := os.MkdirTemp("", "verif-urlpath-race-")
	if err != nil {
		c.Inconclusive("race variant: " + err.Error())
		return
	}
	defer os.RemoveAll(tmp)

	// module file pointing at the same checkout of glb
	mod, err1 := os.ReadFile(filepath.Join(root, "go.mod"))
	sum, err2 := os.ReadFile(filepath.Join(root, "go.sum"))
	if err1 != nil || err2 != nil {
		c.Inconclusive(fmt.Sprintf("race variant: cannot read go.mod/go.sum of %s: %v %v", root, err1, err2))
		return
	}
	alt := filepath.Join(tmp, "alt.mod")
	os.WriteFile(alt, []byte(strings.ReplaceAll(string(mod), "=> /repo", "=> "+repo)), 0o644)
	os.WriteFile(filepath.Join(tmp, "alt.sum"), sum, 0o644)

	bin := filepath.Join(tmp, "urlpath.race")
	c.Progress("race variant: building -race binary against "+repo, true)
	build := exec.Command("go", "build", "-race", "-modfile="+alt, "-tags", "verif", "-o", bin, "./mon/urlpath")
	build.Dir = root
	build.Env = append(os.Environ(), "GOFLAGS=-mod=mod", "GOPROXY=off", "GOSUMDB=off", "GOTOOLCHAIN=local", "PATH="+os.Getenv("PATH")+":/usr/local/go/bin")
	if out, err := build.CombinedOutput(); err != nil {
		c.Inconclusive(fmt.Sprintf("race variant: go build -race failed: %v: %s", err, tailStr(string(out), 1500)))
		return
	}
	c.Add("race_binary_built", 1)

	inner := sh
	inner.Name = sh.Name + "-inner"
	ia := a
	ia.Kind = "retain-conc"
	inner.Args, _ = json.Marshal(ia)
	shardFile := filepath.Join(tmp, "inner.shard.json")
	outFile := filepath.Join(tmp, "inner.res.json")
	logFile := filepath.Join(tmp, "inner.log")
	b, _ := json.Marshal(inner)
	os.WriteFile(shardFile, b, 0o644)
	lf, _ := os.Create(logFile)
	cmd := exec.Command(bin, "-child", shardFile, "-out", outFile)
	cmd.Stdout, cmd.Stderr = lf, lf
	cmd.Env = append(os.Environ(), "GOTRACEBACK=all", "GORACE=halt_on_error=0 log_path="+filepath.Join(tmp, "race"))
	cmd.Env = append(cmd.Env, sh.Env...)
	cmd.SysProcAttr = &syscall.SysProcAttr{Setpgid: true}
	c.Progress("race variant: running "+string(inner.Args), true)
	if err := cmd.Start(); err != nil {
		lf.Close()
		c.Inconclusive("race variant: cannot start the -race binary: " + err.Error())
		return
	}
	done := make(chan error, 1)
	go func() { done <- cmd.Wait() }()
	limit := time.Duration(sh.Secs) * time.Second * 8 / 10 // stay inside this shard's own watchdog
	if limit <= 0 {
		limit = 600 * time.Second
	}
	timedOut := false
	select {
	case <-done:
	case <-time.After(limit):
		timedOut = true
		syscall.Kill(-cmd.Process.Pid, syscall.SIGKILL)
		<-done
	}
	syscall.Kill(-cmd.Process.Pid, syscall.SIGKILL)
	lf.Close()
	logb, _ := os.ReadFile(logFile)

	var res drv.Result
	haveRes := false
	if rb, err := os.ReadFile(outFile); err == nil && json.Unmarshal(rb, &res) == nil && res.Done {
		haveRes = true
	}
	switch {
	case haveRes:
		c.Eval(res.Evaluations)
		for k, v := range res.Sum {
			c.Add("race_"+k, v)
		}
		for _, v := range res.Violations {
			c.Violate("race-build:"+v.Key, v.Case, v.Expected, v.Observed)
		}
		for _, s := range res.Inconclusive {
			c.Inconclusive("race variant: " + s)
		}
		c.DistinctStr("race-conc\x00" + string(inner.Args))
	case timedOut:
		c.Inconclusive(fmt.Sprintf("race variant: the -race process did not finish within %s", limit))
	case raceCrashRe.Match(logb):
		m := raceCrashRe.FindString(string(logb))
		c.Violate("crash:"+m, map[string]any{"shard": inner, "log_tail": tailStr(string(logb), 6000)},
			"concurrent callers complete", "the -race process crashed: "+m)
	default:
		c.Inconclusive("race variant: the -race process ended without a result: " + tailStr(string(logb), 1500))
	}

	logs, _ := filepath.Glob(filepath.Join(tmp, "race.*"))
	for _, rl := range logs {
		for _, rp := range drv.ParseRaceLog(rl) {
			c.Add("race_reports_seen", 1)
			if rp.InGlb {
				c.Violate("race:"+rp.Sig, map[string]any{"shard": inner, "report": tailStr(rp.Text, 6000)},
					"no data race with a glb frame among concurrent callers of ResolveUrlPath", "DATA RACE "+rp.Sig)
			} else {
				c.Inconclusive("race variant: race report without a glb frame (harness race): " + tailStr(rp.Text, 1500))
			}
		}
	}
}

func tailStr(s string, n int) string {
	if len(s) > n {
		return "…" + s[len(s)-n:]
	}
	return s
}
