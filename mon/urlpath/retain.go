package main

import (
	"fmt"
	"math/rand"
	"strconv"
	"strings"
	"sync"
	"sync/atomic"
)

// Retained-result oracle. A caller keeps the returned path (to open it a little later); the
// string it holds must stay the path that was returned and must stay inside its base whatever
// ResolveUrlPath is asked afterwards. In every shard the runner keeps the results of the last
// retainWindow calls exactly as returned, together with a strings.Clone snapshot taken at
// return. After every call the most recent kept results are compared with their snapshots,
// every retainSweep calls (and at the end of the shard / replay) the whole window; a kept
// string that changed is judged again by the containment oracle.

const (
	retainWindow = 64
	retainRecent = 4
	retainSweep  = 16
)

type keptRes struct {
	call Call
	base string // the base as passed to glb ($T substituted)
	got  string // exactly as returned
	snap string // strings.Clone(got) taken at return
	no   int64
	live bool
}

// lexJudge is the pure form of the lexical oracle (no counters), used for kept results and by
// the concurrent variant.
func lexJudge(base, p, got string) (kind, expected string) {
	cb, exp, _ := expectedFor(base, p)
	if got == "" {
		return "empty-result", exp.String()
	}
	gl := normalize(got)
	if !under(cb, gl) {
		return "escape", fmt.Sprintf("%q or a path beneath it (model: %q)", cb.String(), exp.String())
	}
	if dotFree(p) && gl.String() != exp.String() {
		return "dotfree-join", fmt.Sprintf("%q (base joined with the segments of the dot-free path)", exp.String())
	}
	if dotFree(p) && got != exp.String() {
		return "dotfree-unclean", fmt.Sprintf("%q exactly (the cleaned base joined with the segments of the dot-free path)", exp.String())
	}
	return "", ""
}

func mutatedKind(base, got string) (kind, what string) {
	if got != "" && under(normalize(base), normalize(got)) {
		return "retained-result-mutated", "it still lies beneath its base"
	}
	return "retained-result-escaped", "it now lies OUTSIDE its base " + strconv.Quote(normalize(base).String())
}

// checkKept compares one kept result with its snapshot.
func (r *runner) checkKept(e *keptRes, cs *Case) (key, expected, observed string) {
	r.st.add("retained_checks", 1)
	if !e.live || e.got == e.snap {
		return "", "", ""
	}
	now := strings.Clone(e.got)
	kind, what := mutatedKind(e.base, now)
	e.live = false
	// the history from the kept call to the latest call, for the replay
	var seq []Call
	for n := e.no; n <= r.keptN; n++ {
		k := &r.kept[n%retainWindow]
		if k.no == n {
			c := k.call
			c.PathQ = strconv.QuoteToASCII(string(c.Path))
			seq = append(seq, c)
		}
	}
	last := r.kept[r.keptN%retainWindow].call
	*cs = Case{Mode: "hist", Seq: seq, Got: now}
	return fmt.Sprintf("%s:base=%s:path=%s", kind, q(e.call.Base), q(string(e.call.Path))),
		fmt.Sprintf("the string returned for this call keeps reading %q for as long as the caller holds it", e.snap),
		fmt.Sprintf("the kept result of ResolveUrlPath(%q, %q) read %q when returned and reads %q %d calls later (latest call: base=%s path=%s); %s",
			e.base, string(e.call.Path), e.snap, now, r.keptN-e.no, q(last.Base), q(string(last.Path)), what)
}

// retain records the result of the call just made and checks kept results.
func (r *runner) retain(cs *Case, base, got, snap string) (key, expected, observed string, herr error) {
	call := Call{Base: cs.Base, Path: cs.Path, Dir: cs.Dir, Chdir: cs.Chdir}
	r.keptN++
	r.kept[r.keptN%retainWindow] = keptRes{call: call, base: base, got: got, snap: snap, no: r.keptN, live: true}
	lo := r.keptN - retainRecent
	if r.keptN%retainSweep == 0 {
		lo = r.keptN - retainWindow + 1
	}
	for n := r.keptN; n >= lo && n >= 1; n-- {
		e := &r.kept[n%retainWindow]
		if e.no != n {
			continue
		}
		if k, ex, ob := r.checkKept(e, cs); k != "" {
			return k, ex, ob, nil
		}
	}
	return "", "", "", nil
}

// finalSweep checks the whole window once more (end of a shard, end of a replay).
func (r *runner) finalSweep() (key, expected, observed string, cs Case) {
	for n := r.keptN; n > r.keptN-retainWindow && n >= 1; n-- {
		e := &r.kept[n%retainWindow]
		if e.no != n {
			continue
		}
		if k, ex, ob := r.checkKept(e, &cs); k != "" {
			return k, ex, ob, cs
		}
	}
	return "", "", "", cs
}

// ---- concurrent variant -------------------------------------------------------------------

// ConcArgs describes one concurrent scenario: G goroutines, each with its own bases, call
// ResolveUrlPath at the same time; each keeps a window of its own results and checks them after
// every call of its own.
type ConcArgs struct {
	G     int   `json:"goroutines"`
	Calls int   `json:"calls_per_goroutine"`
	Seed  int64 `json:"seed"`
}

var concPaths = []string{"/index.html", "/a", "/a/a", "", "/", "/../server.key", "/../../etc/passwd", "/css/site.css", "/a/../b", "/SECRET", "../SECRET", "/x/y/z/../../w"}

func (r *runner) runConc(cs *Case) (key, expected, observed string, herr error) {
	a := cs.Conc
	if a == nil || a.G <= 0 {
		return "", "", "", fmt.Errorf("%w: conc case without arguments", errHarness)
	}
	const win = 32
	var (
		mu             sync.Mutex
		stop           atomic.Bool
		calls, checks  atomic.Int64
		vk, vexp, vobs string
		start          = make(chan struct{})
		wg             sync.WaitGroup
		report         = func(k, e, o string) {
			mu.Lock()
			if vk == "" {
				vk, vexp, vobs = k, e, o
			}
			mu.Unlock()
			stop.Store(true)
		}
	)
	for g := 0; g < a.G; g++ {
		wg.Add(1)
		go func(g int) {
			defer wg.Done()
			rr := rand.New(rand.NewSource(a.Seed*7919 + int64(g)))
			bases := []string{
				fmt.Sprintf("/srv/site%d", g), fmt.Sprintf("site%d/htdocs", g), fmt.Sprintf("/var/www/%d/../pub%d", g, g),
				fmt.Sprintf("/etc/ssl/private%d", g), lexBases[g%len(lexBases)],
			}
			type kept struct{ base, p, got, snap string }
			var ring [win]kept
			n := 0
			<-start
			for i := 0; i < a.Calls && !stop.Load(); i++ {
				base := bases[rr.Intn(len(bases))]
				var p string
				if rr.Intn(2) == 0 {
					p = concPaths[rr.Intn(len(concPaths))]
				} else {
					p = string(randPath(rr))
				}
				got, pan := resolve(base, p)
				snap := strings.Clone(got)
				calls.Add(1)
				id := fmt.Sprintf("base=%s:path=%s", q(base), q(p))
				if pan != nil {
					report("conc:panic:"+id, "no panic", fmt.Sprintf("panic: %v (goroutine %d of %d)", pan, g, a.G))
					return
				}
				if kind, exp := lexJudge(base, p, snap); kind != "" {
					report("conc:"+kind+":"+id, exp, fmt.Sprintf("%q (goroutine %d of %d calling concurrently)", snap, g, a.G))
					return
				}
				ring[n%win] = kept{base, p, got, snap}
				n++
				for j := 0; j < win && j < n; j++ {
					e := &ring[j]
					checks.Add(1)
					if e.got != e.snap {
						now := strings.Clone(e.got)
						kind, what := mutatedKind(e.base, now)
						report(fmt.Sprintf("conc:%s:base=%s:path=%s", kind, q(e.base), q(e.p)),
							fmt.Sprintf("the string returned for this call keeps reading %q for as long as the caller holds it", e.snap),
							fmt.Sprintf("goroutine %d of %d: the kept result of ResolveUrlPath(%q, %q) read %q when returned and reads %q after later calls (this goroutine's latest: base=%s path=%s); %s",
								g, a.G, e.base, e.p, e.snap, now, q(base), q(p), what))
						return
					}
				}
			}
		}(g)
	}
	close(start)
	wg.Wait()
	r.st.add("conc_calls", calls.Load())
	r.st.add("conc_retained_checks", checks.Load())
	r.st.add("conc_scenarios", 1)
	return vk, vexp, vobs, nil
}
