#!/bin/bash
# Builds helper tools and warms the Go build cache. Offline; uses only files on disk.
set -e
cd "$(dirname "$0")"
export GOFLAGS=-mod=mod GOPROXY=off GOSUMDB=off GOTOOLCHAIN=local
export PATH=$PATH:/usr/local/go/bin
mkdir -p .bin .work evidence
if [ -d tools/argvdump ]; then
  go build -o .bin/argvdump ./tools/argvdump
fi
# warm the cache: plain and race builds of the standard library + glb
go build -tags verif -o .bin/ ./mon/... 2>&1 | tail -5 || true
go build -race -tags verif -o .work/warm.race ./mon/ipfilter 2>/dev/null || true
rm -f .work/warm.race
echo setup done
