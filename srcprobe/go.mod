module srcprobe

go 1.22.5

require github.com/whoisnian/glb v0.0.0

require golang.org/x/sys v0.21.0 // indirect

replace github.com/whoisnian/glb => /repo
