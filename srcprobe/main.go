// Command srcprobe logs a few records with the source attribute enabled and reports, for each,
// the file name the Go runtime records for the calling line (runtime.Caller on the same source
// line) together with the line the handler wrote. It exists because the file names a binary
// carries depend on how it was built: this module has a slash-less module path and its main
// package at the module root, so a -trimpath build records "srcprobe/main.go" (one slash), a
// -trimpath build from file arguments "command-line-arguments/main.go", a plain build the
// absolute path. The monitors logjson (C01) and logtext (C13) build it in these ways, run it and
// judge the written lines; the judgement is theirs, this program only records.
package main

import (
	"bytes"
	"context"
	"encoding/json"
	"fmt"
	"os"
	"runtime"

	"github.com/whoisnian/glb/logger"

	"srcprobe/sub"
)

func at(call func()) (string, int) {
	_, f, n, _ := runtime.Caller(1)
	call()
	return f, n
}

type rec struct {
	Kind string `json:"kind"`
	Via  string `json:"via"`
	File string `json:"file"` // as the runtime reports it for the calling line
	Line int    `json:"line"`
	Out  string `json:"out"`
}

// fatal logs one record through Fatal or Fatalf (which end the process) with the handler writing to
// standard output; the expected call site goes to standard error first.
func fatal(kind, via string) {
	opts := logger.NewOptions(logger.LevelDebug, false, true)
	var h logger.Handler
	switch kind {
	case "json":
		h = logger.NewJsonHandler(os.Stdout, opts)
	case "text":
		h = logger.NewTextHandler(os.Stdout, opts)
	default:
		h = logger.NewNanoHandler(os.Stdout, opts)
	}
	l := logger.New(h).With("w", 2)
	if via == "Fatal" {
		atFatal(func() { l.Fatal("m", "k", 1) })
	}
	atFatal(func() { l.Fatalf("%s", "m") })
}

func atFatal(call func()) {
	_, f, n, _ := runtime.Caller(1)
	json.NewEncoder(os.Stderr).Encode(rec{File: f, Line: n})
	call()
}

func main() {
	if len(os.Args) == 4 && os.Args[1] == "fatal" {
		fatal(os.Args[2], os.Args[3])
		os.Exit(7) // not reached: Fatal / Fatalf end the process with status 1
	}
	enc := json.NewEncoder(os.Stdout)
	ctx := context.Background()
	for _, kind := range []string{"json", "text", "nano"} {
		var buf bytes.Buffer
		opts := logger.NewOptions(logger.LevelDebug, false, true)
		var h logger.Handler
		switch kind {
		case "json":
			h = logger.NewJsonHandler(&buf, opts)
		case "text":
			h = logger.NewTextHandler(&buf, opts)
		default:
			h = logger.NewNanoHandler(&buf, opts)
		}
		l := logger.New(h)
		emit := func(via, file string, line int) {
			enc.Encode(rec{Kind: kind, Via: via, File: file, Line: line, Out: buf.String()})
			buf.Reset()
		}
		// at runs the logging call written on the same source line and reports that line
		f, n := at(func() { l.Info("m", "k", 1) })
		emit("Info", f, n)
		f, n = at(func() { l.Log(ctx, logger.LevelWarn, "m", "k", 1) })
		emit("Log", f, n)
		f, n = at(func() { l.Errorf("%s", "m") })
		emit("Errorf", f, n)
		f, n = at(func() { l.With("w", 2).WithGroup("g").Debug("m", "k", 1) })
		emit("With.Debug", f, n)
		f, n = sub.Log(l)
		emit("sub.Info", f, n)
	}
	if len(os.Args) > 1 {
		fmt.Fprintln(os.Stderr, "usage: srcprobe | srcprobe fatal <json|text|nano> <Fatal|Fatalf>")
	}
}
