// Package sub gives the probe a call site one directory below the module root.
package sub

import (
	"runtime"

	"github.com/whoisnian/glb/logger"
)

func Log(l *logger.Logger) (string, int) {
	return at(func() { l.Info("m", "k", 1) })
}

func at(call func()) (string, int) {
	_, f, n, _ := runtime.Caller(1)
	call()
	return f, n
}
