// argvdump prints every command-line argument (os.Args[1:]) followed by a NUL byte:
// "the argv a program receives". Helper of the C16 monitor (mon/shellesc).
package main

import (
	"bufio"
	"os"
)

func main() {
	w := bufio.NewWriterSize(os.Stdout, 1<<16)
	for _, a := range os.Args[1:] {
		w.WriteString(a)
		w.WriteByte(0)
	}
	if err := w.Flush(); err != nil {
		os.Exit(1)
	}
}
