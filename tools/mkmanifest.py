#!/usr/bin/env python3
"""Writes /verif/MANIFEST.json from the table below (keeps it valid at all times)."""
import json, os, sys
ROOT = os.path.dirname(os.path.dirname(os.path.abspath(__file__)))

# id: (monitor, category, technique, text, note, design_ref)
CHECKS = {
 "C11": ("ipfilter", "exploration",
   "reference-model monitor (set of prefixes) over exhaustive + seeded operation sequences, boundary probes in 4- and 16-byte form",
   "Runs the real IPv4Filter next to a set-of-prefixes model over all sequences of up to 4 (quick) / 5 (thorough) operations of a 12-op alphabet, replayed from empty and after 254/255/256 filler adds (list mode, across the migration, map mode, with already-removed slots), plus seeded random sequences of 250-650 ops over a small universe; after every op the first/last address of every touched range and its outside neighbours are probed in both address forms. Held-on-what-was-observed, not a proof.",
   "Trusts the model (30 lines) and net.IPNet construction; sequences beyond the enumerated length are only sampled.", "§3 C11"),
 "C04": ("route", "exploration",
   "reference-model monitor (router written from the statement) + invocation counter + recover(), exhaustive small-scope tables x paths, seeded random large tables",
   "Registers every table of up to 3 routes over 58 patterns x {GET,*} (POST for pairs), thorough also all 4-route tables over 10 shapes x 3 methods, on a real Mux and on a flat-list reference router; sends 151 paths (doubled/trailing slashes, look-alike segments, '', '*', slash-less) x 4 methods through ServeHTTP and compares the single invoked handler, its RouteInfo and every parameter lookup. Plus random tables of 5..40 routes with arbitrary-byte segments; in part of the cases handlers panic after observing, the request list is served after every single registration, or 4..64 goroutines serve at once under GC pressure. About 10^8 dispatches per run.",
   "Trusts the 150-line reference router; requests are delivered by calling ServeHTTP directly with a hand-built http.Request (no network parsing in between).", "§3 C04"),
 "C05": ("reqiso", "exploration",
   "differential monitor: every request of a history on a long-lived Mux vs the same request on a fresh Mux; ID uniqueness set; Go race detector on concurrent runs",
   "All histories of up to 4 (quick) / 6 (thorough) ops over a 10-op alphabet (the root route, matched with 0/1/2 params or *, unmatched, partial match failing at the method node, panicking handler, registering a route with more parameters than any before, serving it) on one goroutine so that the pooled Store is reused maximally; relay, route and no-route handlers look up every parameter name of the table, RouteParamAny, W.Status and GetID. Random histories up to 200 ops; concurrent runs of 4-16 goroutines x 10^4 requests plain and under -race at GOMAXPROCS 2/4/16.",
   "Trusts that a fresh Mux is residue-free (it is the reference); registration concurrent with serving is outside the statement and not driven.", "§3 C05"),
 "C01": ("logjson", "exploration",
   "reference-model monitor: strict framing + UTF-8 + order-preserving JSON decode of every written line vs an independently computed expected tree; string- and shape-exhaustive sub-spaces, seeded random deep records",
   "Every line the JSON handler writes (through the public Logger API and through Handler.Handle with a chosen time) is checked for framing, UTF-8, single-object syntax and ordered equality with the expected tree. The string space ('', all 1-/2-byte strings, every Unicode scalar alone and embedded; quick rotates through 1/16 of the scalars) is used as message, key, value and group name at once; the shape space (all With/WithGroup chains of up to 3 ops x forests with up to 4/5 nodes over leaf, keyed/inline/empty groups and LogValuer layers) is enumerated completely; random deep records add 26 value kinds with extremes, failing / pretty-printing / nil-receiver encoders. Every other case also derives decoy sibling loggers from each parent of the chain; further entry points (level methods, LogAttrs, Logf family, Panic/Panicf), a call site under a //line directive with an awkward file name, and record times at and beyond the years RFC 3339 can spell are covered.",
   "Trusts encoding/json's decoder as the syntax judge and the 300-line expectation model; colour on, panicking LogValuers and times outside 1970..2191 are not generated.", "§3 C01"),
 "C13": ("logtext", "exploration",
   "independent tokenizer written from the grammar in the statement + expected (dotted path, value) list; same string-/shape-exhaustive and random corpora as C01",
   "Every line the text handler writes is re-tokenised (pair = tok '=' tok, tok = Go-quoted or bare run without Unicode space, '=' or '\"') and the unquoted tokens must equal time, level, source, msg and each attribute's dotted path and value in order. Strings sit in message, key, value, group-key and WithGroup-name position simultaneously. Decoy sibling loggers, the Panic/Panicf and Logf entry points, an awkwardly named call-site file, extreme record times, and a shard in which 8 goroutines share one (grouped or root) logger while a LogValuer logs re-entrantly through it are covered too.",
   "Trusts strconv.Unquote and the tokenizer (60 lines); ambiguity between (group,key) splits with the same dotted path is by design of the format.", "§3 C13"),
 "C10": ("cfgargs", "exploration",
   "reference-model monitor: a reference argv parser written from the documented grammar run next to FlagSet.Parse on exhaustive short vectors and seeded random vectors",
   "All argument vectors of up to 5 (quick) / 6 (thorough) tokens over a 16-token alphabet of well-formed flags and near-misses, -config forms inserted at every position, plus 10^6/10^7 random vectors with arbitrary byte tokens; flag names of 63..200 bytes; compared: error vs nil, Args(), ShowUsage(), all field values; recover() around Parse; a canary vector re-parsed after every case (Parse must not depend on earlier Parse calls).",
   "Typed value syntax is delegated to the same strconv/time/base64 functions the flag package uses; the property is about the grammar.", "§3 C10"),
 "C17": ("urlpath", "exploration",
   "reference-model monitor (segment-stack containment, no path.Clean) plus the real file system as canary (inode/content of what the result reaches)",
   "All strings of length up to 8 (quick) / 10 (thorough) over {'/', '.', 'a', '\\'} x 12 base spellings against a lexical containment model, and up to 7/9 against a real temp tree with SECRET files outside the base where os.Stat/os.ReadFile of the result must stay inside (absolute and, after chdir, relative bases); random hostile paths with %2e, backslashes, long segments; history shards (colliding (base, path) splits asked in both orders and interleaved), a retained-result oracle and a concurrent variant.",
   "POSIX only; symlinks inside the base are outside the statement.", "§3 C17"),
 "C02": ("logatomic", "exploration",
   "recording io.Writer (overlap counter, per-call payload copies) + offline multiset check against alone-replay lines; Go race detector on the same runs",
   "Concurrent runs of 2-32 goroutines logging through the root, pre-derived children and children derived on the fly, all three handlers, all five thresholds, line sizes from tiny to 40 KiB around the 16 KiB pool limit, GOMAXPROCS 2/4/16, plain and under -race. The destination counts Write calls that overlap and dwells inside; afterwards the time-stripped payloads must be exactly the multiset of lines the records produce when logged alone, and #Write == #records at or above the threshold (decided from the level, not from glb). In a third of the runs the destination reports short writes with an error now and then.",
   "Held on the schedules that occurred (context switches in the output order are reported); writers that fail or write short are outside the statement.", "§3 C02"),
 "C03": ("logderive", "exploration",
   "differential monitor: every line of a derivation tree vs the alone replay of that logger's own chain; With-vs-call-site decoded equality; race detector on concurrent derivation from a shared parent",
   "Sibling sweep over a non-root parent whose pre-rendered bytes take every length 0..200 (every spare capacity of the append growth policy), 2-4 children, several derive/log orders and all orders of up to 6 ops for selected lengths; random trees (depth 5, fan-out 4, 40 ops) with rich attribute forests; With(A).WithGroup(g).With(B).Log(C) == Log(A, Group(g,B,C)) and With(A).With(B).Log(C) == Log(A,B,C) over enumerated and random forests; concurrent derivation plain and under -race, including rounds in which all goroutines derive their first child from a fresh parent simultaneously; group names that need escaping.",
   "The alone replay runs the same glb code on a fresh root, so the check decides isolation and With/call-site equivalence, not absolute format correctness (C01/C13 do that).", "§3 C03"),
 "C18": ("filecopy", "fault_enumeration",
   "content-snapshot monitor (SHA-256 before/after) on two real file systems with strace syscall fault injection and RLIMIT_FSIZE inside the copy",
   "Complete product of sizes x destination kinds x aliasing spellings x same/other file system for CopyFile and MoveFile; real EXDEV via /dev/shm; strace injects failing rename, copy_file_range (call 1 and 2), read/write fallback faults, openat, fstat and unlinkat errors into a probe process performing exactly one call; the oracle requires destination == source snapshot on nil and an intact source on error. A name-related family (source = destination + '.tmp', '~', '.bak', hidden variants, and vice versa) is included.",
   "Needs ptrace/strace (rows are listed as skipped otherwise); close() and destination-stat faults are not injected.", "§3 C18"),
 "C19": ("progress", "exploration",
   "event-log monitor: writer/consumer histories checked offline (Size == sum n, monotone prefix sums, final total, closed channel); blocked-writer decided structurally from goroutine dumps; race detector",
   "2 300 (quick) / 240 000 (thorough) seeded scenarios over 6 wrapped-writer behaviours x StringWriter or not x op lists of Write/WriteString up to 50 ops x 5 consumer behaviours, at GOMAXPROCS 1/2/4/16 and under -race; evidence counts received vs skipped sends and intermediate values per consumer kind. Also long scenarios (up to 10^5 tiny writes against an eager consumer), 10^5 aligned one-write-then-Close lifetimes, lazily obtained Status(), and a structural rule for a writer parked in any channel operation below ProgressWriter frames.",
   "Size() from another goroutine while writing is unsynchronised in glb and not promised; not driven.", "§3 C19"),
 "C15": ("relay", "exploration",
   "offline checker over recorded events: log records (one Write = one record, parsed per handler kind) joined by request id with the client's wire log; real http.Server on loopback and ServeHTTP with a recorder; race detector",
   "The full product of handler behaviours (12 status codes x body or not x panic before / after header / after body / none x 9 panic value kinds, matched and unmatched) is sent sequentially over real HTTP and through a recorder for all three handlers at thresholds Info, Error, Fatal; seeded batches with 8 and 64 requests in flight at GOMAXPROCS 2/4/16, also under -race. Panic values include errors wrapping / joining / textually equal to http.ErrAbortHandler and a nil-like error; bodies are also written with io.Copy; requests aborting with the excluded sentinel are followed by ordinary ones; every code 200..599 is swept. Decided: one REQ_BEG and one REQ_END per request with its method/URI/ip/id, END code == status received, 500 iff panic before any write, one Error record with the rendered panic value iff the handler panicked, nothing escapes Relay.",
   "http.ErrAbortHandler, 1xx, hijacking and HTTP/2 are not exercised; request URIs are space-free tokens so that the key-less nano format can be split.", "§3 C15"),
 "C20": ("daemonlaunch", "exploration",
   "process-level monitor: marker files written before Done(), /proc parentage and liveness after the caller exited; schedules forced with the verif pause hook in the launcher",
   "A harness binary plays caller, launcher (glb code) and daemon. Launch's return is judged by file existence at that instant (marker and pre-Done file carrying the returned pid), the daemon must be alive, re-parented and answer a ping after the caller exited, the launcher must be gone. Schedules: natural with Done() after 0/5/200 ms, forced 'Done() precedes the launcher's wait' via GLB_VERIF_PAUSE, 2 and 8 concurrent Launch calls, mixed, launchers that linger before exiting, and launch histories inside one caller with handlers that fail before Done(). 260 (quick) / 7 800 (thorough) scenarios.",
   "Needs fork/exec, signals and /proc; only these schedule classes are forced, other timings are sampled by repetition.", "§3 C20"),
 "C16": ("shellesc", "exploration",
   "the real dash, bash and bash --posix reading the escaped text (argv printed by an external helper, canary files) plus an independent POSIX quoting lexer; exhaustive short strings over the shell's special characters",
   "Every string of length up to 4 (quick) / 5 (thorough) over the 15-character alphabet of shell specials, the same with a ~/ prefix, 2*10^4/10^6 random non-NUL byte strings up to 64 bytes and a hostile corpus are escaped by the real functions, written into scripts and executed by three shell modes x two locales (x two HOME values for the tilde form); the NUL-split argv must equal the inputs, stderr empty, exit 0, working directory unchanged (canary). A quoting model must see exactly one word with no active expansion trigger. Positive controls prove the oracles can fire. Results are also kept and compared again after later calls (retained-result oracle), concurrent callers are run at GOMAXPROCS 2/4/16, and all strings of length up to 16 over {quote, letter} go through the model.",
   "Only dash and bash are installed; other POSIX shells are covered by the lexer model only.", "§3 C16"),
 "C09": ("cfgprio", "exploration",
   "value-first reference-model monitor: expected = highest-priority source, sources really set (argv, environment, JSON file / CFG_CONFIG_B64); exhaustive type x source-mask lattice, seeded random structs",
   "Structs are built with reflect.StructOf; per field a 4-bit mask of {tag default, JSON, env, cli} and one typed value per source are chosen first and rendered into each source's syntax, so the oracle never parses. The lattice 9 types x 16 masks x nesting depth x tag syntax x JSON carrier x cli spelling x value classes (zero, extremes, empty text, awkward strings) is run completely (2*10^5 parses), plus 5*10^4/1.6*10^6 random structs of 1-12 fields with independent masks.",
   "JSON null, unknown and case-folded JSON keys are not generated; env names come from a hand-written pool.", "§3 C09"),
 "C06": ("lane", "fault_enumeration",
   "event-log checker over API-boundary histories (PushTask results, per-task start counters, logical clock) with cancellation injected at every protocol point through the verif hook; quiescence decided from goroutine dumps",
   "Cancel is fired on the k-th hit (k in 1,2,3,5,8) of each of 13 hook points between the channel operations of PushTask, the queue goroutine and the worker, on 9 small lane/queue configurations in 3 load shapes (free running, all workers pinned with blocked producers, timeouts against a full lane), plus 300 (quick) / 20 000 (thorough, also at GOMAXPROCS 2 and 4 and under -race) random scenarios. Decided: no task starts twice, no task whose PushTask returned an error ever starts (judged when no lane goroutine exists any more), and with the context live every accepted task has started once the lane is structurally at rest. Also: rush scenarios (push, cancel, Wait right after New), try-push timeouts (0, 1 µs, 50 µs), nil tasks, and the rule that the lane keeps its 2 x laneSize goroutines while the context is live.",
   "'Eventually' is decided as bounded progress to a quiescent goroutine dump; schedules are those the hook perturbation and the machine produced (distinct hook traces are counted).", "§3 C06"),
 "C07": ("lane", "fault_enumeration",
   "same scenario runner: after cancel the system must reach 'Wait returned, no lane goroutine' and never rest with a parked producer / lane goroutine; exit hooks tell whether Wait returned early",
   "Same cancel-point enumeration and random scenarios as C06. After the cancel and after releasing all gated tasks the monitor follows goroutine dumps: coming to rest with a producer in PushTask, a lane goroutine parked or Wait not returned is a violation (Done() is closed, so only a select without that case can park). Pushes begun after cancel returned must return the context's error and never start; after Wait a dump must show no lane goroutine; Wait may not return before all 2 x laneSize goroutines reached their exit hook; no start after Wait. Also: up to 8 concurrent Wait callers (also parked in Wait before the cancel), rush scenarios at GOMAXPROCS 1/2/16, deadline-expired contexts, zero timeouts.",
   "A lane goroutine that spins instead of parking makes the run inconclusive (watchdog), not a violation.", "§3 C07"),
 "C08": ("lane", "exploration",
   "running-task counter inside Start() and head-of-line rule at structurally quiescent states with pinned workers",
   "1..laneSize-1 workers are pinned by gated tasks (including the target lane's own worker) for laneSize 2,3,4,8 x queueSize 0,1,2,5; everything is pushed to one lane, to the pinned lanes only, round-robin or via ShortestQueueIndex, with and without hook perturbation; at rest with the context live and fewer than laneSize tasks running, no accepted task may be unstarted; max(enter - exit) <= laneSize at every task entry; no push may stay blocked at rest while a worker is idle. Warm-up histories (a burst through one lane before the other workers are pinned) with directed delays at hook points.",
   "Schedules sampled, not enumerated.", "§3 C08"),
 "C14": ("lane", "exploration",
   "Status() pollers (bounds on every sample), exact pending comparison at quiescent states, LastPanic membership, Go race detector on simultaneous-panic scenarios",
   "Stable states with all workers pinned and k = 0..capacity tasks accepted behind them (PendingTask must equal k exactly), overflow with timeouts, panic mixes of five dynamic value types on every lane, one gated panicking task per worker released at once; 1-4 goroutines poll Status() throughout. After panics every other accepted task must have started exactly once, the lane keeps its 2 x laneSize goroutines, and LastPanic == one of the raised values (uncomparable dynamic types such as slices and maps included, raised back to back). The simultaneous-panic scenarios run under -race without the hook at GOMAXPROCS 2/4/16.",
   "Race reports are schedule dependent; the scenarios are repeated (40 quick / 600 thorough per GOMAXPROCS value).", "§3 C14"),
 "C12": ("ipfilterconc", "exploration",
   "interval checker over logically time-stamped lookups (stable / never-present / owned ranges, match-all on-intervals) plus per-writer sequential models; Go race detector and runtime fatal errors on the same workload",
   "Trials with 2-4 writers (disjoint owned /8s, 150-300 ops each with nested and repeated prefixes, probing their own range after every op), 2-8 readers and an optional 0.0.0.0/0 toggler on a filter pre-loaded with 32 stable ranges, so that the 257th add (list-to-map migration) happens while lookups are running. A stable address must always be found, a never-added address never (unless the call's logical interval meets a match-all interval), a writer sees its own updates, and the final filter equals the per-writer models. 180 (quick) / 30 000 (thorough) plain trials at GOMAXPROCS 2/4/16 plus -race trials; switch rounds (list filled to exactly 256, one writer's Add switches while others remove and add) and toggle trials (watchers look up one fixed address around a writer's updates, judged by a phase counter).",
   "Not linearizability: the statement is regular-register-like, and the checker encodes exactly that. Evidence reports how many lookups overlapped a write and the migrating Add.", "§3 C12"),
}
BUILT = set(CHECKS)

# workload extensions made after the seeding rounds (appended to the level text)
EXTRA = {
 "C01": " Also: a pool-history shard (each judged record logged right after a record of 100 B..1 MiB went through the handlers' shared buffer pool), handler thresholds other than Debug (a record below the threshold must leave no byte), json.RawMessage values (compact, pretty-printed, garbage), and a separately built probe program (/verif/srcprobe: slash-less module path, main package at the module root; built with -trimpath, with -trimpath from file arguments, and plainly) whose records - including the two written by Fatal / Fatalf before the process ends - must name the runtime's file and line of the call site. Marshaler / RawMessage outputs include well-formed documents with bytes that are not UTF-8 inside strings (the line must stay UTF-8, each such byte read back as U+FFFD); values whose MarshalText / Error method panics on a good receiver.",
 "C13": " Also: a pool-history shard (each judged record logged right after a record of 100 B..1 MiB went through the handlers' shared buffer pool), handler thresholds other than Debug, json.RawMessage values, and the separately built probe program of C01 (file names with one slash, a ./ prefix, absolute; Fatal / Fatalf) judged for the source token. Values whose MarshalText / Error method panics on a good receiver (struct value, non-nil pointer).",
 "C02": " Records go through every Logger entry point (Log, level methods, LogAttrs, f-methods) and thresholds between the named levels are used; values that the JSON handler hands to encoding/json (floats, structs, maps) are logged concurrently; single-goroutine specials: a LogValuer that logs through the same logger family while the outer record is formatted (a blocked handler mutex is told from a goroutine dump), and a destination whose Write panics once (later records must still be written). Panic / Panicf and calls made with an already cancelled context are entry points too.",
 "C03": " The With-vs-call-site comparison is strict (empty groups included) and covers raw argument lists: every list of up to 4 (thorough 5) arguments over strings (incl. empty and dangling), stray values, Attrs, (empty, nested, inline) groups, LogValuers and AnsiString, With(args...).Log(m,z) byte-equal to Log(m,args...,z) on all three handlers, at the root and under a WithGroup, with addSource on and off; one sweep order lets a sibling write a line beyond the pooled-buffer limit. Another sweep order derives a child right after a line of exactly the pooled-buffer limit.",
 "C04": " A refused registration (Handle panics, the caller recovers) stays in the history: the table of successfully registered routes, and so every dispatch, must be what it was.",
 "C06": " Context shards hand the lane a context type of the harness' own, a standard context with 40-1000 sibling children, or a cause-carrying context; dwell scenarios leave the lane alone for 1.3 s (thorough also 3.1 s and 11 s) once idle and once loaded before the structural judgements. Flood scenarios push thousands of short tasks through tiny queues.",
 "C07": " Context shards hand the lane a context type of the harness' own (own Done channel), a standard context with 40-1000 sibling children, or a context ended with a cause; pushes are made by the cancelling goroutine the instant cancel() returned and by observer goroutines woken by <-ctx.Done(); a push after the end must return exactly ctx.Err().",
 "C08": " Wide lanes (32/64/256) are used the moment New returns (all tasks to lane 0: all must run); dwell scenarios; the head-of-line scenarios also run under the race detector.",
 "C14": " After Wait has returned the lane is at rest too: PendingTask == accepted - started (tasks dropped by the cancellation stay counted) and LastPanic is one of the raised values (nil iff none) are judged there as well, including scenarios whose first panics happen after the cancellation; dwell scenarios; states with more than 255 tasks held at once (300 lanes).",
 "C09": " History cases: structs pre-filled with garbage of every type before NewFlagSet, reload (NewFlagSet+Parse twice on one struct value), a failing Parse followed by another Parse on the same FlagSet; the usage flag among the arguments; 87 hand-written field-name -> env-name pairs exercising every branch of the snake-casing; integer text also in Go-literal spellings (0x, 0o, 0b, leading-0 octal, _).",
 "C10": " Also: a second Parse call on an already parsed FlagSet (must not change Args(), fields, ShowUsage()), tag names with upper-case letters, and the FromCommandLine entry point driven through os.Args. A Parse that failed is retried on the same FlagSet; argument names one character away from a declared flag must be refused.",
 "C11": " FirstIP/LastIP of the same package are called between the operations; a twin filter instance receives the history shifted into another address space in 1/8 (exhaustive) / 1/3 (random) of the sequences; an edge universe (network address 0.0.0.0, top of the address space) is swept to length 3; invalid forms include ::/0, a nil mask and a 16-byte zero mask; every probe is repeated as the tail of a genuine IPv6 address, which only 0.0.0.0/0 covers. Drained filters (everything that was added is deleted again, then probed and refilled) are part of the history families.",
 "C12": " In every second trial and every fourth switch round witness filter instances (one long-lived in map mode, fresh ones crossing their own switch again and again) work in the same process and must answer by their own history only; in those trials the writers also feed networks that are not IPv4 CIDRs and require ErrInvalidIPv4CIDR. Lookups made inside the toggler's own match-all interval are judged against that interval. Lookups are made in 4-byte, 16-byte and genuine IPv6 form; 128.0.0.0/1 is one of the stable ranges; never-covered probes include the bottom of the address space.",
 "C15": " Handler behaviours also include W.Flush()/FlushError() on the untouched response and the Store's own helpers (Respond200, RespondJson, Redirect, Error404, Error500, a wrapped http.HandlerFunc); request lines of 17-46 KiB; raw non-ASCII bytes in the path (recorder path); panic values also: an error held by value whose Error method panics, a uint64 above MaxInt64, a string beginning with byte 0x80. A handler may write without ever flushing (the writer's buffered bytes are flushed by the server).",
 "C17": " Quick also sweeps every byte (first / last / in the middle of climbing paths) and the trivial paths against unclean bases; for a dot-free path the result must equal filepath.Join(base, path) exactly.",
 "C18": " Also: source-side aliasing (the source path is a symlink, a chain of symlinks, a ./-spelling or a hard link; the destination is the real file, another link to it, or an intermediate link of the source's own chain), sizes 2 MiB+1 / 4 MiB+3 / 8 MiB+1, and concurrent calls on distinct files in quick. After a nil return of MoveFile the source path must be gone unless the destination is another name of the source.",
 "C19": " Data also reaches the writer the way callers send it (io.Copy / CopyN / CopyBuffer, WriteTo, io.WriteString, fmt.Fprintf, bufio.Writer) over wrapped writers with and without ReadFrom / WriteString, scripted and OS-backed (temp file, /dev/null, /dev/full, broken pipe); Status() is probed after Close() has returned. Wrapped writers that also implement Close (succeeding, failing, already closed, slow) are used; the Status() judgements are unchanged by them.",
 "C20": " Also: slow-daemon cases (the handler waits before Done() at a gate only the supervisor opens; a Launch that has returned while it is closed is the violation), daemons that use their standard descriptors after Done(), handler names at the edges (\"\", blanks, '=', 200 bytes, prefixes of each other), launches from inside a daemon, and callers started through a relative path, PATH lookup or a symlink. Ordinary pre-Done actions of a daemon (cleaning its environment, chdir, closing inherited descriptors, setsid) and handler names with path or list separators are exercised. Short-lived daemons (the handler ends right after Done(), naturally, behind the pause hook, or after freezing its launcher with SIGSTOP so that signal and exit are both pending when the supervisor resumes it): Launch must still return nil and the handler's pid. daemon.Run() returning true in a process that nobody re-executed is reported (run-true-in-plain-process).",
}

ALL = ["C%02d" % i for i in range(1, 21)]

def main():
    checks = []
    for pid in ALL:
        if pid not in CHECKS: continue
        mon, cat, tech, text, note, ref = CHECKS[pid]
        text += EXTRA.get(pid, "")
        checks.append({
            "property_id": pid,
            "quick_cmd": "./check %s quick" % pid,
            "thorough_cmd": "./check %s thorough" % pid,
            "evidence_file": "/verif/evidence/%s.json" % pid,
            "replay_cmd_template": "./check %s --replay {path}" % pid,
            "engine": mon,
            "level_claimed": {"category": cat, "text": text, "design_ref": "DESIGN.md " + ref},
            "level_note": note,
            "technique": tech,
        })
    na = [{"property_id": p, "reason": "check not built yet (runtime monitor planned in DESIGN.md §3; not claimed until it exists and is silent on the unchanged tree)"} for p in ALL if p not in CHECKS]
    engines = {}
    for pid, v in CHECKS.items():
        engines.setdefault(v[0], []).append(pid)
    m = {
        "version": 1,
        "setup_cmd": "./setup.sh",
        "hooks": {
            "guard": "verif",
            "enable": "go build -tags verif (the monitors in /verif/mon are built with it by ./check; module replace github.com/whoisnian/glb => /repo)",
            "baseline_off_cmd": "cd /repo && GOFLAGS=-mod=mod GOPROXY=off GOSUMDB=off GOTOOLCHAIN=local go test -vet=off -count=1 ./...",
            "source_commits": ["55518f9", "9fa74b3"],
            "add_only": True,
        },
        "engines": [{"name": k, "path": "/verif/mon/" + k, "serves_properties": sorted(v),
                     "kind_free_text": "Go runtime monitor (parent/child processes via internal/drv) observing the real glb code built from /repo"} for k, v in sorted(engines.items())],
        "checks": checks,
        "not_applicable": na,
        "notes": "All checks are runtime monitors (family: runtime monitoring and sanitizers). ./check <ID> quick|thorough rebuilds the monitor from /repo's working tree with -tags verif (and a -race build where the property involves concurrency). Exit 0 held / 1 violation / 3 inconclusive / 2 check broken. Repaired defects are listed in known_findings.txt as 'fixed:' lines.",
    }
    with open(os.path.join(ROOT, "MANIFEST.json"), "w") as f:
        json.dump(m, f, indent=1)
        f.write("\n")

if __name__ == "__main__":
    main()
