#!/usr/bin/env python3
"""Writes /verif/MANIFEST.json from the table below (keeps it valid at all times)."""
import json, os, sys
ROOT = os.path.dirname(os.path.dirname(os.path.abspath(__file__)))

# id: (monitor, category, technique, text, note, design_ref)
CHECKS = {
 "C11": ("ipfilter", "exploration",
   "reference-model monitor (set of prefixes) over exhaustive + seeded operation sequences, boundary probes in 4- and 16-byte form",
   "Runs the real IPv4Filter next to a set-of-prefixes model over all sequences of up to 4 (quick) / 6 (thorough) operations of a 12-op alphabet, replayed from empty and after 254/255/256 filler adds (list mode, across the migration, map mode, with already-removed slots), plus seeded random sequences of 250-650 ops over a small universe; after every op the first/last address of every touched range and its outside neighbours are probed in both address forms. Held-on-what-was-observed, not a proof.",
   "Trusts the model (30 lines) and net.IPNet construction; sequences beyond the enumerated length are only sampled.", "§3 C11"),
 "C04": ("route", "exploration",
   "reference-model monitor (router written from the statement) + invocation counter + recover(), exhaustive small-scope tables x paths, seeded random large tables",
   "Registers every table of up to 3 routes over 58 patterns x {GET,*} (POST for pairs), thorough also all 4-route tables over 10 shapes x 3 methods, on a real Mux and on a flat-list reference router; sends 151 paths (doubled/trailing slashes, look-alike segments, '', '*', slash-less) x 4 methods through ServeHTTP and compares the single invoked handler, its RouteInfo and every parameter lookup. Plus random tables of 5..40 routes with arbitrary-byte segments. About 10^8 dispatches per run.",
   "Trusts the 150-line reference router; requests are delivered by calling ServeHTTP directly with a hand-built http.Request (no network parsing in between).", "§3 C04"),
 "C05": ("reqiso", "exploration",
   "differential monitor: every request of a history on a long-lived Mux vs the same request on a fresh Mux; ID uniqueness set; Go race detector on concurrent runs",
   "All histories of up to 4 (quick) / 6 (thorough) ops over a 9-op alphabet (matched with 0/1/2 params or *, unmatched, partial match failing at the method node, panicking handler, registering a route with more parameters than any before, serving it) on one goroutine so that the pooled Store is reused maximally; relay, route and no-route handlers look up every parameter name of the table, RouteParamAny, W.Status and GetID. Random histories up to 200 ops; concurrent runs of 4-16 goroutines x 10^4 requests plain and under -race at GOMAXPROCS 2/4/16.",
   "Trusts that a fresh Mux is residue-free (it is the reference); registration concurrent with serving is outside the statement and not driven.", "§3 C05"),
 "C01": ("logjson", "exploration",
   "reference-model monitor: strict framing + UTF-8 + order-preserving JSON decode of every written line vs an independently computed expected tree; string- and shape-exhaustive sub-spaces, seeded random deep records",
   "Every line the JSON handler writes (through the public Logger API and through Handler.Handle with a chosen time) is checked for framing, UTF-8, single-object syntax and ordered equality with the expected tree. The string space ('', all 1-/2-byte strings, every Unicode scalar alone and embedded; quick rotates through 1/16 of the scalars) is used as message, key, value and group name at once; the shape space (all With/WithGroup chains of up to 3 ops x forests with up to 4/5 nodes over leaf, keyed/inline/empty groups and LogValuer layers) is enumerated completely; random deep records add 23 value kinds with extremes and failing encoders.",
   "Trusts encoding/json's decoder as the syntax judge and the 300-line expectation model; colour on, panicking LogValuers and times outside 1970..2191 are not generated.", "§3 C01"),
 "C13": ("logtext", "exploration",
   "independent tokenizer written from the grammar in the statement + expected (dotted path, value) list; same string-/shape-exhaustive and random corpora as C01",
   "Every line the text handler writes is re-tokenised (pair = tok '=' tok, tok = Go-quoted or bare run without Unicode space, '=' or '\"') and the unquoted tokens must equal time, level, source, msg and each attribute's dotted path and value in order. Strings sit in message, key, value, group-key and WithGroup-name position simultaneously.",
   "Trusts strconv.Unquote and the tokenizer (60 lines); ambiguity between (group,key) splits with the same dotted path is by design of the format.", "§3 C13"),
 "C10": ("cfgargs", "exploration",
   "reference-model monitor: a reference argv parser written from the documented grammar run next to FlagSet.Parse on exhaustive short vectors and seeded random vectors",
   "All argument vectors of up to 5 (quick) / 6 (thorough) tokens over a 16-token alphabet of well-formed flags and near-misses, -config forms inserted at every position, plus 10^6/10^7 random vectors with arbitrary byte tokens; compared: error vs nil, Args(), ShowUsage(), all nine field values; recover() around Parse.",
   "Typed value syntax is delegated to the same strconv/time/base64 functions the flag package uses; the property is about the grammar.", "§3 C10"),
 "C17": ("urlpath", "exploration",
   "reference-model monitor (segment-stack containment, no path.Clean) plus the real file system as canary (inode/content of what the result reaches)",
   "All strings of length up to 8 (quick) / 10 (thorough) over {'/', '.', 'a', '\\'} x 12 base spellings against a lexical containment model, and up to 7/9 against a real temp tree with SECRET files outside the base where os.Stat/os.ReadFile of the result must stay inside (absolute and, after chdir, relative bases); random hostile paths with %2e, backslashes, long segments.",
   "POSIX only; symlinks inside the base are outside the statement.", "§3 C17"),
}
BUILT = set(CHECKS)

ALL = ["C%02d" % i for i in range(1, 21)]

def main():
    checks = []
    for pid in ALL:
        if pid not in CHECKS: continue
        mon, cat, tech, text, note, ref = CHECKS[pid]
        checks.append({
            "property_id": pid,
            "quick_cmd": "./check %s quick" % pid,
            "thorough_cmd": "./check %s thorough" % pid,
            "evidence_file": "/verif/evidence/%s.json" % pid,
            "replay_cmd_template": "./check %s --replay {path}" % pid,
            "engine": mon,
            "level_claimed": {"category": cat, "text": text, "design_ref": "DESIGN.md " + ref},
            "level_note": note,
            "technique": tech,
        })
    na = [{"property_id": p, "reason": "check not built yet (runtime monitor planned in DESIGN.md §3; not claimed until it exists and is silent on the unchanged tree)"} for p in ALL if p not in CHECKS]
    engines = {}
    for pid, v in CHECKS.items():
        engines.setdefault(v[0], []).append(pid)
    m = {
        "version": 1,
        "setup_cmd": "./setup.sh",
        "hooks": {
            "guard": "verif",
            "enable": "go build -tags verif (the monitors in /verif/mon are built with it by ./check; module replace github.com/whoisnian/glb => /repo)",
            "baseline_off_cmd": "cd /repo && GOFLAGS=-mod=mod GOPROXY=off GOSUMDB=off GOTOOLCHAIN=local go test -vet=off -count=1 ./...",
            "source_commits": ["55518f9"],
            "add_only": True,
        },
        "engines": [{"name": k, "path": "/verif/mon/" + k, "serves_properties": sorted(v),
                     "kind_free_text": "Go runtime monitor (parent/child processes via internal/drv) observing the real glb code built from /repo"} for k, v in sorted(engines.items())],
        "checks": checks,
        "not_applicable": na,
        "notes": "All checks are runtime monitors (family: runtime monitoring and sanitizers). ./check <ID> quick|thorough rebuilds the monitor from /repo's working tree with -tags verif (and a -race build where the property involves concurrency). Exit 0 held / 1 violation / 3 inconclusive / 2 check broken. Repaired defects are listed in known_findings.txt as 'fixed:' lines.",
    }
    with open(os.path.join(ROOT, "MANIFEST.json"), "w") as f:
        json.dump(m, f, indent=1)
        f.write("\n")

if __name__ == "__main__":
    main()
