#!/usr/bin/env python3
"""Sensitivity harness: applies hand-written breaking changes (the M lists of DESIGN.md §3) to a
scratch copy of /repo, checks that the package's unit tests still pass, and runs the quick check
against the copy (VERIF_REPO). Usage: tools/mutants.py [ID-or-name-substring ...]
Nothing is ever applied to /repo itself; scratch copies live under /tmp and are removed."""
import os, shutil, subprocess, sys, time

ENV = dict(os.environ, GOFLAGS="-mod=mod", GOPROXY="off", GOSUMDB="off", GOTOOLCHAIN="local")

# (property, name, package to unit-test, [(file, old, new), ...], expect) ; expect: "caught" | "silent"
M = []
def mut(prop, name, pkg, edits, expect="caught"):
    M.append((prop, name, pkg, edits, expect))

# ---- C01 ---------------------------------------------------------------------------------
mut("C01", "drop-fffd-branch", "logger", [("logger/json_handler.go",
 """			*buf = append(*buf, str[start:i]...)
			*buf = append(*buf, '\\\\', 'u', 'f', 'f', 'f', 'd')
			i += size
			start = i
			continue""",
 """			i += size
			continue""")])
mut("C01", "marshal-error-unquoted", "logger", [("logger/json_handler.go",
 """		*buf = append(*buf, '"')
		if u, ok := err.(interface{ Unwrap() error }); ok {
			appendJsonString(buf, u.Unwrap().Error())
		} else {
			appendJsonString(buf, err.Error())
		}
		*buf = append(*buf, '"')
		return""",
 """		if u, ok := err.(interface{ Unwrap() error }); ok {
			*buf = append(*buf, '"')
			appendJsonString(buf, u.Unwrap().Error())
			*buf = append(*buf, '"')
		} else {
			*buf = append(*buf, err.Error()...)
		}
		return""")])
mut("C01", "withgroup-forgets-nopen", "logger", [("logger/json_handler.go",
 """	h2.nOpenGroups += 1
	h2.addSep = false""",
 """	if h2.nOpenGroups == 0 {
		h2.nOpenGroups += 1
	}
	h2.addSep = false""")])
mut("C01", "preformatted-after-attrs", "logger", [("logger/json_handler.go",
 """	if len(h.preformatted) > 0 {
		*buf = append(*buf, h.preformatted...)
	}

	if r.NumAttrs() > 0 {
		addSep := h.addSep""",
 """	if len(h.preformatted) > 0 && h.nOpenGroups > 0 {
		*buf = append(*buf, h.preformatted...)
	}

	if r.NumAttrs() > 0 {
		addSep := h.addSep || (len(h.preformatted) > 0 && h.nOpenGroups == 0)"""),
 ("logger/json_handler.go",
 """	for i := 0; i < h.nOpenGroups; i++ {
		*buf = append(*buf, '}')
	}""",
 """	if len(h.preformatted) > 0 && h.nOpenGroups == 0 {
		*buf = append(*buf, h.preformatted...)
	}
	for i := 0; i < h.nOpenGroups; i++ {
		*buf = append(*buf, '}')
	}""")])
mut("C01", "clone-drops-addsep", "logger", [("logger/json_handler.go",
 """		nOpenGroups:  h.nOpenGroups,
		addSep:       h.addSep,""",
 """		nOpenGroups:  h.nOpenGroups,
		addSep:       h.addSep || h.nOpenGroups > 1,""")])
mut("C01", "revert-fix-empty-inline", "logger", [("logger/json_handler.go",
 """				if appendJsonAttr(buf, aa, addSep, colorful) {
					addSep, written = true, true
				}""",
 """				appendJsonAttr(buf, aa, addSep, colorful)
				addSep, written = true, true""")])
mut("C01", "u2028-unescaped-only-in-keys-ok", "logger", [("logger/json_handler.go",
 """		if c == '\\u2028' || c == '\\u2029' {""",
 """		if c == '\\u2029' {""")], expect="silent")  # raw U+2028 is legal JSON: must stay silent
mut("C01", "control-byte-raw", "logger", [("logger/json_handler.go",
 """				*buf = append(*buf, '\\\\', 'u', '0', '0', hex[b>>4], hex[b&0xF])""",
 """				if b == 0x1f {
					*buf = append(*buf, b)
				} else {
					*buf = append(*buf, '\\\\', 'u', '0', '0', hex[b>>4], hex[b&0xF])
				}""")])
mut("C01", "duration-as-string", "logger", [("logger/json_handler.go",
 """	case slog.KindDuration:
		*buf = strconv.AppendInt(*buf, int64(v.Duration()), 10)
	case slog.KindTime:
		*buf = append(*buf, '"')""",
 """	case slog.KindDuration:
		*buf = strconv.AppendInt(*buf, int64(v.Duration())/1000*1000, 10)
	case slog.KindTime:
		*buf = append(*buf, '"')""")])

# ---- C13 ---------------------------------------------------------------------------------
mut("C13", "equals-not-quoted-after-first", "logger", [("logger/text_handler.go",
 """			if b != '\\\\' && (b == ' ' || b == '=' || !safeSet[b]) {""",
 """			if b != '\\\\' && (b == ' ' || (b == '=' && i == 0) || !safeSet[b]) {""")])
mut("C13", "space-not-quoted-in-long", "logger", [("logger/text_handler.go",
 """			if b != '\\\\' && (b == ' ' || b == '=' || !safeSet[b]) {""",
 """			if b != '\\\\' && ((b == ' ' && len(str) < 64) || b == '=' || !safeSet[b]) {""")])
mut("C13", "unicode-space-bare", "logger", [("logger/text_handler.go",
 """		if r == utf8.RuneError || unicode.IsSpace(r) || !unicode.IsPrint(r) {""",
 """		if r == utf8.RuneError || (!unicode.IsPrint(r) && r > 0xff) {""")])
mut("C13", "failing-textmarshaler-unquoted", "logger", [("logger/text_handler.go",
 """			if data, err := vv.MarshalText(); err != nil {
				appendTextString(buf, err.Error())""",
 """			if data, err := vv.MarshalText(); err != nil {
				*buf = append(*buf, err.Error()...)""")])
mut("C13", "clone-forgets-groupprefix", "logger", [("logger/text_handler.go",
 """		preformatted: slices.Clip(h.preformatted),
		groupPrefix:  h.groupPrefix,""",
 """		preformatted: slices.Clip(h.preformatted),""")], expect="caught")
mut("C13", "prefix-and-key-quoted-separately", "logger", [("logger/text_handler.go",
 """		*prefix = append(*prefix, '.')
		*prefix = append(*prefix, a.Key...)
		appendTextString(buf, strutil.UnsafeBytesToString(*prefix))""",
 """		appendTextString(buf, strutil.UnsafeBytesToString(*prefix))
		*buf = append(*buf, '.')
		appendTextString(buf, a.Key)""")])
mut("C13", "bytes-value-raw", "logger", [("logger/text_handler.go",
 """		} else if vv, ok := va.([]byte); ok {
			appendTextString(buf, string(vv))""",
 """		} else if vv, ok := va.([]byte); ok {
			*buf = append(*buf, vv...)""")])

# ---- C04 ---------------------------------------------------------------------------------
mut("C04", "revert-fix-empty-path", "httpd", [("httpd/tree.go",
 """	if path == "" || path[0] != '/' {""",
 """	if false {""")])
mut("C04", "param-any-precedence-swapped", "httpd", [("httpd/tree.go",
 """		} else if res, ok := node.next[routeParam]; ok {
			params.V = append(params.V, path[left+1:right])
			node = res
		} else if res, ok := node.next[routeParamAny]; ok {
			params.V = append(params.V, path[left+1:])
			node = res
			break
		} else {""",
 """		} else if res, ok := node.next[routeParamAny]; ok {
			params.V = append(params.V, path[left+1:])
			node = res
			break
		} else if res, ok := node.next[routeParam]; ok {
			params.V = append(params.V, path[left+1:right])
			node = res
		} else {""")])
mut("C04", "methodall-fallback-dropped-with-sibling", "httpd", [("httpd/tree.go",
 """	return node.next[methodTagMap[MethodAll]]""",
 """	if len(node.next) > 1 {
		return nil
	}
	return node.next[methodTagMap[MethodAll]]""")])
mut("C04", "root-special-case-dropped", "httpd", [("httpd/tree.go",
 """	if length == 1 {
		if n := node.methodNodeOrNil(method); n != nil {""",
 """	if length == 1 && len(node.next) == 1 {
		if n := node.methodNodeOrNil(method); n != nil {""")])
mut("C04", "any-binds-segment-only", "httpd", [("httpd/tree.go",
 """			params.V = append(params.V, path[left+1:])""",
 """			params.V = append(params.V, path[left+1:right])""")])
mut("C04", "empty-fragment-rule-off-by-one", "httpd", [("httpd/tree.go",
 """		if right-left < 2 && right < length { // check routeParam if current is last fragment""",
 """		if right-left < 2 && right+1 < length { // check routeParam if current is last fragment""")])

# ---- C05 ---------------------------------------------------------------------------------
mut("C05", "revert-fix-stale-names", "httpd", [("httpd/httpd.go",
 """		store.P.K, store.P.V = nil, store.P.V[:0]
	}""", """	}"""),
 ("httpd/httpd.go", """	store.P.K, store.P.V = nil, store.P.V[:0]
	store.id""", """	store.P.V = store.P.V[:0]
	store.id""")])
mut("C05", "revert-fix-append", "httpd", [("httpd/tree.go",
 """			params.V = append(params.V, path[left+1:right])""",
 """			i := len(params.V)
			params.V = params.V[:i+1]
			params.V[i] = path[left+1 : right]""")])
mut("C05", "values-not-reset", "httpd", [("httpd/httpd.go",
 """	store.P.K, store.P.V = nil, store.P.V[:0]
	store.id""", """	store.P.K = nil
	store.id""")])
mut("C05", "status-not-reset", "httpd", [("httpd/httpd.go",
 """	store.W.Status = 0
""", """""")])
mut("C05", "id-not-truncated", "httpd", [("httpd/httpd.go",
 """	store.id = store.id[:9]
""", """	store.id = store.id[:min(len(store.id), 12)]
""")])
mut("C05", "nonatomic-storeid", "httpd", [("httpd/httpd.go",
 """atomic.AddUint64(&mux.storeID, 1)""", """func() uint64 { mux.storeID++; return atomic.LoadUint64(&mux.storeID) }()""")])
mut("C05", "names-assigned-before-method-known", "httpd", [("httpd/tree.go",
 """	if node = node.methodNodeOrNil(method); node != nil {
		params.K = node.paramNameList
		return node.info
	} else {
		return nil
	}""",
 """	for _, n := range node.next {
		if n.info != nil {
			params.K = n.paramNameList
		}
	}
	if node = node.methodNodeOrNil(method); node != nil {
		params.K = node.paramNameList
		return node.info
	} else {
		return nil
	}"""),
 ("httpd/httpd.go", """		store.P.K, store.P.V = nil, store.P.V[:0]
	}""", """		store.P.V = store.P.V[:0]
	}""")])

# ---- C11 ---------------------------------------------------------------------------------
mut("C11", "revert-fix-16byte", "util/netutil", [("util/netutil/filter.go",
 """	if len(ip) == net.IPv6len {
		ip = ip.To4() // 16-byte form of an IPv4 address, e.g. from net.ParseIP
	}
""", "")])
mut("C11", "migration-copies-removed-slots", "util/netutil", [("util/netutil/filter.go",
 """				if f.ipList[i][1] > 0 {
					f.ipMaps[f.ipList[i][1]-1][f.ipList[i][0]] = true
				}""",
 """				f.ipMaps[max(f.ipList[i][1], 1)-1][f.ipList[i][0]] = true""")])
mut("C11", "remove-stops-at-first-match", "util/netutil", [("util/netutil/filter.go",
 """				f.ipList[i] = [2]uint32{0, 0} // reset to invalid CIDR
""", """				f.ipList[i] = [2]uint32{0, 0} // reset to invalid CIDR
				break
""")])
mut("C11", "migration-loses-trigger-add", "util/netutil", [("util/netutil/filter.go",
 """			f.ipMaps[ones-1][nip&ipv4Masks[ones-1]] = true
		}
	} else {""", """		}
	} else {""")])
mut("C11", "matchall-after-length-test", "util/netutil", [("util/netutil/filter.go",
 """	if f.matchAll.Load() {
		return true
	}
	if len(ip) == net.IPv6len {
		ip = ip.To4() // 16-byte form of an IPv4 address, e.g. from net.ParseIP
	}
	if len(ip) != net.IPv4len {
		return false
	}
""", """	if len(ip) == net.IPv6len {
		ip = ip.To4() // 16-byte form of an IPv4 address, e.g. from net.ParseIP
	}
	if len(ip) != net.IPv4len {
		return false
	}
	if f.matchAll.Load() {
		return true
	}
""")], expect="silent")  # IPv4 probes only: behaviour identical for every IPv4 address
mut("C11", "remove-in-maps-uses-unmasked", "util/netutil", [("util/netutil/filter.go",
 """		delete(f.ipMaps[ones-1], nip&ipv4Masks[ones-1])""",
 """		delete(f.ipMaps[ones-1], nip)""")])
mut("C11", "slash32-mask-off-by-one-in-list-contains", "util/netutil", [("util/netutil/filter.go",
 """			if f.ipList[i][1] > 0 && nip&ipv4Masks[f.ipList[i][1]-1] == f.ipList[i][0] {""",
 """			if f.ipList[i][1] > 1 && nip&ipv4Masks[f.ipList[i][1]-1] == f.ipList[i][0] {""")])


# ---- C02 ---------------------------------------------------------------------------------
mut("C02", "json-clone-fresh-mutex", "logger", [("logger/json_handler.go",
 """		outMu:        h.outMu,
		out:          h.out,
		preformatted: slices.Clip(h.preformatted),
		nOpenGroups:  h.nOpenGroups,""",
 """		outMu:        &sync.Mutex{},
		out:          h.out,
		preformatted: slices.Clip(h.preformatted),
		nOpenGroups:  h.nOpenGroups,""")])
mut("C02", "text-unlock-before-write", "logger", [("logger/text_handler.go",
 """	h.outMu.Lock()
	defer h.outMu.Unlock()
	_, err := h.out.Write(*buf)
	return err""",
 """	h.outMu.Lock()
	h.outMu.Unlock()
	_, err := h.out.Write(*buf)
	return err""")])
mut("C02", "nano-newline-second-write", "logger", [("logger/nano_handler.go",
 """	*buf = append(*buf, '\\n')

	h.outMu.Lock()
	defer h.outMu.Unlock()
	_, err := h.out.Write(*buf)
	return err""",
 """	h.outMu.Lock()
	defer h.outMu.Unlock()
	_, err := h.out.Write(*buf)
	if err == nil {
		_, err = h.out.Write([]byte{'\\n'})
	}
	return err""")])
mut("C02", "freebuffer-keeps-big-prefix", "logger", [("logger/buffer.go",
 """	if cap(*buf) <= maxBufferSize {
		*buf = (*buf)[:0]
		bufferPool.Put(buf)
	}""",
 """	if cap(*buf) <= maxBufferSize {
		*buf = (*buf)[:0]
		bufferPool.Put(buf)
	} else if cap(*buf) <= 4*maxBufferSize {
		*buf = (*buf)[:1]
		bufferPool.Put(buf)
	}""")])
mut("C02", "json-buffer-freed-before-write", "logger", [("logger/json_handler.go",
 """	h.outMu.Lock()
	defer h.outMu.Unlock()
	_, err := h.out.Write(*buf)
	return err""",
 """	line := *buf
	freeBuffer(buf)
	buf = new([]byte)
	h.outMu.Lock()
	defer h.outMu.Unlock()
	_, err := h.out.Write(line)
	return err""")])
mut("C02", "logf-gate-strict", "logger", [("logger/logger.go",
 """func (l *Logger) log(ctx context.Context, level slog.Level, msg string, args ...any) error {
	if !l.h.Enabled(level) {""",
 """func (l *Logger) log(ctx context.Context, level slog.Level, msg string, args ...any) error {
	if !l.h.Enabled(level) || (len(args) > 1 && !l.h.Enabled(level-4)) {""")])
mut("C02", "text-big-lines-split", "logger", [("logger/text_handler.go",
 """	h.outMu.Lock()
	defer h.outMu.Unlock()
	_, err := h.out.Write(*buf)
	return err""",
 """	h.outMu.Lock()
	defer h.outMu.Unlock()
	if len(*buf) > 32<<10 {
		if _, err := h.out.Write((*buf)[:32<<10]); err != nil {
			return err
		}
		_, err := h.out.Write((*buf)[32<<10:])
		return err
	}
	_, err := h.out.Write(*buf)
	return err""")])


# ---- C03 ---------------------------------------------------------------------------------
for _h, _f in (("json", "logger/json_handler.go"), ("text", "logger/text_handler.go"), ("nano", "logger/nano_handler.go")):
    mut("C03", _h + "-clone-without-clip", "logger", [(_f,
     """		preformatted: slices.Clip(h.preformatted),""",
     """		preformatted: slices.Grow(h.preformatted, 0),""")])
mut("C03", "text-withgroup-mutates-receiver", "logger", [("logger/text_handler.go",
 """	h2 := h.clone()
	if len(h2.groupPrefix) == 0 {
		h2.groupPrefix = name
	} else {
		h2.groupPrefix = h2.groupPrefix + "." + name
	}
	return h2""",
 """	h2 := h.clone()
	if len(h2.groupPrefix) == 0 {
		h2.groupPrefix = name
	} else {
		h.groupPrefix = h.groupPrefix + "." + name
		h2.groupPrefix = h.groupPrefix
	}
	return h2""")])
mut("C03", "json-withattrs-appends-to-parent", "logger", [("logger/json_handler.go",
 """	h2 := h.clone()
	for _, a := range attrs {
		if appendJsonAttr(&h2.preformatted, a, h2.addSep, h2.Options.colorful) {""",
 """	h2 := h.clone()
	h2.preformatted = h.preformatted
	for _, a := range attrs {
		if appendJsonAttr(&h2.preformatted, a, h2.addSep, h2.Options.colorful) {""")])
mut("C03", "json-with-attrs-after-callsite", "logger", [("logger/json_handler.go",
 """	if len(h.preformatted) > 0 {
		*buf = append(*buf, h.preformatted...)
	}

	if r.NumAttrs() > 0 {""",
 """	if len(h.preformatted) > 0 && (h.nOpenGroups > 0 || r.NumAttrs() == 0) {
		*buf = append(*buf, h.preformatted...)
	}
	pre := len(h.preformatted) > 0 && h.nOpenGroups == 0 && r.NumAttrs() > 0

	if r.NumAttrs() > 0 {"""),
 ("logger/json_handler.go",
 """	for i := 0; i < h.nOpenGroups; i++ {
		*buf = append(*buf, '}')
	}""",
 """	if pre {
		*buf = append(*buf, h.preformatted...)
	}
	for i := 0; i < h.nOpenGroups; i++ {
		*buf = append(*buf, '}')
	}""")])


# ---- C15 ---------------------------------------------------------------------------------
mut("C15", "recover-only-errors", "logger", [("logger/httpd.go",
 """		if err := recover(); err != nil && err != http.ErrAbortHandler {""",
 """		if err := recover(); err != nil && err != http.ErrAbortHandler {
			if _, isErr := err.(error); !isErr {
				if _, isStr := err.(string); !isStr {
					panic(err)
				}
			}""")])
mut("C15", "drop-status-guard", "logger", [("logger/httpd.go",
 """			if store.W.Status == 0 {
				http.Error(store.W, http.StatusText(http.StatusInternalServerError), http.StatusInternalServerError)
			}""",
 """			http.Error(store.W, http.StatusText(http.StatusInternalServerError), http.StatusInternalServerError)""")])
mut("C15", "end-code-from-entry-copy", "logger", [("logger/httpd.go",
 """	defer func() {
		if l.h.Enabled(LevelInfo) {
			if store.W.Status == 0 {
				store.W.Status = http.StatusOK
			}""",
 """	status := &store.W.Status
	if store.R.Method == http.MethodDelete {
		status = new(int)
	}
	defer func() {
		if l.h.Enabled(LevelInfo) {
			if *status == 0 {
				*status = http.StatusOK
			}
			if store.W.Status == 0 {
				store.W.Status = http.StatusOK
			}"""),
 ("logger/httpd.go", """				slog.Int("code", store.W.Status),""", """				slog.Int("code", *status),""")])
mut("C15", "end-logged-before-recovery", "logger", [("logger/httpd.go",
 """	defer func() {
		if l.h.Enabled(LevelInfo) {
			if store.W.Status == 0 {
				store.W.Status = http.StatusOK
			}""",
 """	defer func() {
		if l.h.Enabled(LevelInfo) && false {
			if store.W.Status == 0 {
				store.W.Status = http.StatusOK
			}"""),
 ("logger/httpd.go", """	store.I.HandlerFunc(store)
}""", """	defer func() {
		if l.h.Enabled(LevelInfo) {
			code := store.W.Status
			if code == 0 {
				code = http.StatusOK
			}
			r := slog.NewRecord(time.Now(), LevelInfo, "", 0)
			r.AddAttrs(
				slog.Any("tag", AnsiString{ansi.BlueFG, "REQ_END"}),
				slog.Int("code", code),
				slog.Int64("dur", time.Since(start).Milliseconds()),
				slog.String("ip", remoteIP),
				slog.String("method", store.R.Method),
				slog.String("path", store.R.RequestURI),
				slog.String("tid", store.GetID()),
			)
			l.h.Handle(context.Background(), r)
		}
	}()
	store.I.HandlerFunc(store)
}""")])
mut("C15", "error-record-without-tid-for-nonstring", "logger", [("logger/httpd.go",
 """				r.AddAttrs(slog.String("tid", store.GetID()))""",
 """				if _, ok := err.(string); ok || store.W.Status == 0 {
					r.AddAttrs(slog.String("tid", store.GetID()))
				} else {
					r.AddAttrs(slog.String("tid", ""))
				}""")])
mut("C15", "500-also-after-header-for-5xx", "logger", [("logger/httpd.go",
 """			if store.W.Status == 0 {
				http.Error(store.W, http.StatusText(http.StatusInternalServerError), http.StatusInternalServerError)
			}""",
 """			if store.W.Status == 0 || store.W.Status >= 500 {
				store.W.Status = 0
				http.Error(store.W, http.StatusText(http.StatusInternalServerError), http.StatusInternalServerError)
			}""")])


# ---- C06 / C07 / C08 / C14 (tasklane) -----------------------------------------------------
TL = "tasklane/tasklane.go"
mut("C06", "held-task-sent-twice", "tasklane", [(TL,
 """			select {
			case tl.blockingQueueList[index] <- task:
			default:
				verifPoint(tl.ctx, "queue.beforeBlockingOffer", index)""",
 """			select {
			case tl.blockingQueueList[index] <- task:
				select {
				case tl.universalQueue <- task:
				default:
				}
			default:
				verifPoint(tl.ctx, "queue.beforeBlockingOffer", index)""")])
mut("C06", "enqueue-reports-timeout-when-full", "tasklane", [(TL,
 """		case tl.bufferedQueueList[index] <- task:
			return nil""",
 """		case tl.bufferedQueueList[index] <- task:
			if cap(tl.bufferedQueueList[index]) > 1 && len(tl.bufferedQueueList[index]) == cap(tl.bufferedQueueList[index]) {
				return ErrTimeout
			}
			return nil""")])
mut("C06", "worker-reruns-task-on-cancel", "tasklane", [(TL,
 """				select {
				case <-tl.ctx.Done():
					return
				case task = <-tl.blockingQueueList[index]:
				case task = <-tl.universalQueue:
				}""",
 """				select {
				case <-tl.ctx.Done():
					if task == nil {
						return
					}
				case task = <-tl.blockingQueueList[index]:
				case task = <-tl.universalQueue:
				}""")])
mut("C06", "timeout-branch-also-enqueues", "tasklane", [(TL,
 """		case <-time.After(tl.timeout):
			return ErrTimeout""",
 """		case <-time.After(tl.timeout):
			select {
			case tl.universalQueue <- task:
			default:
			}
			return ErrTimeout""")])
mut("C07", "queue-offer-without-done-case", "tasklane", [(TL,
 """				select {
				case <-tl.ctx.Done():
					return
				case tl.blockingQueueList[index] <- task:
				case tl.universalQueue <- task:
				}""",
 """				select {
				case tl.blockingQueueList[index] <- task:
				case tl.universalQueue <- task:
				}""")])
mut("C07", "push-without-outer-done-check", "tasklane", [(TL,
 """	verifPoint(tl.ctx, "push.enter", index)
	select {
	case <-tl.ctx.Done():
		return tl.ctx.Err()
	default:""",
 """	verifPoint(tl.ctx, "push.enter", index)
	select {
	default:""")])
mut("C07", "push-select-without-done-case", "tasklane", [(TL,
 """		select {
		case <-tl.ctx.Done():
			return tl.ctx.Err()
		case tl.bufferedQueueList[index] <- task:
			return nil""",
 """		select {
		case tl.bufferedQueueList[index] <- task:
			return nil""")])
mut("C07", "wg-counts-only-workers", "tasklane", [(TL,
 """	tl.wg.Add(laneSize * 2)""", """	tl.wg.Add(laneSize)"""),
 (TL, """func (tl *TaskLane) startQueue(index int) {
	defer tl.wg.Done()
""", """func (tl *TaskLane) startQueue(index int) {
""")])
mut("C07", "worker-take-without-done-case", "tasklane", [(TL,
 """				select {
				case <-tl.ctx.Done():
					return
				case task = <-tl.blockingQueueList[index]:
				case task = <-tl.universalQueue:
				}""",
 """				select {
				case task = <-tl.blockingQueueList[index]:
				case task = <-tl.universalQueue:
				}""")])
mut("C08", "queue-never-offers-universal", "tasklane", [(TL,
 """				case tl.blockingQueueList[index] <- task:
				case tl.universalQueue <- task:
				}""",
 """				case tl.blockingQueueList[index] <- task:
				}""")])
mut("C08", "worker-never-takes-universal", "tasklane", [(TL,
 """				case task = <-tl.blockingQueueList[index]:
				case task = <-tl.universalQueue:
				}""",
 """				case task = <-tl.blockingQueueList[index]:
				}""")])
mut("C08", "worker-universal-only-before-first-task", "tasklane", [(TL,
 """				case task = <-tl.blockingQueueList[index]:
				case task = <-tl.universalQueue:
				}""",
 """				case task = <-tl.blockingQueueList[index]:
				case task = <-func() chan Task {
					if task != nil {
						return nil
					}
					return tl.universalQueue
				}():
				}""")])
mut("C08", "extra-worker-per-lane", "tasklane", [(TL,
 """	tl.wg.Add(laneSize * 2)
	for i := 0; i < laneSize; i++ {
		go tl.startQueue(i)
		go tl.startWorker(i)
	}""",
 """	tl.wg.Add(laneSize*2 + 1)
	for i := 0; i < laneSize; i++ {
		go tl.startQueue(i)
		go tl.startWorker(i)
	}
	go tl.startWorker(0)""")])
mut("C14", "revert-fix-lastpanic-atomic", "tasklane", [(TL,
 """	lastPanic       atomic.Pointer[any] // written by workers, read by Status()""", """	lastPanic       any"""),
 (TL, """					tl.lastPanic.Store(&err)""", """					tl.lastPanic = err"""),
 (TL, """	var lastPanic any
	if p := tl.lastPanic.Load(); p != nil {
		lastPanic = *p
	}
""", """	lastPanic := tl.lastPanic
""")])
mut("C14", "count-before-take", "tasklane", [(TL,
 """		verifPoint(tl.ctx, "queue.loop", index)
		select {
		case <-tl.ctx.Done():
			return
		case task = <-tl.bufferedQueueList[index]:
		}
		verifPoint(tl.ctx, "queue.afterTake", index)
		tl.blockingTaskCnt.Add(1)""",
 """		verifPoint(tl.ctx, "queue.loop", index)
		tl.blockingTaskCnt.Add(1)
		select {
		case <-tl.ctx.Done():
			return
		case task = <-tl.bufferedQueueList[index]:
		}
		verifPoint(tl.ctx, "queue.afterTake", index)""")])
mut("C14", "decrement-before-handover", "tasklane", [(TL,
 """		verifPoint(tl.ctx, "queue.afterCount", index)
		select {""",
 """		verifPoint(tl.ctx, "queue.afterCount", index)
		tl.blockingTaskCnt.Add(^uint32(0))
		select {"""),
 (TL, """		verifPoint(tl.ctx, "queue.afterHandover", index)
		tl.blockingTaskCnt.Add(^uint32(0)) // decrement blockingTaskCnt
""", """		verifPoint(tl.ctx, "queue.afterHandover", index)
""")])
mut("C14", "recover-outside-loop", "tasklane", [(TL,
 """	defer tl.wg.Done()
	defer verifPoint(tl.ctx, "worker.exit", index)

	var task Task
	for {
		verifPoint(tl.ctx, "worker.loop", index)""",
 """	defer tl.wg.Done()
	defer verifPoint(tl.ctx, "worker.exit", index)
	defer func() {
		if err := recover(); err != nil {
			tl.lastPanic.Store(&err)
		}
	}()

	var task Task
	for {
		verifPoint(tl.ctx, "worker.loop", index)"""),
 (TL, """			defer func() {
				if err := recover(); err != nil {
					tl.lastPanic.Store(&err)
				}
			}()
			task.Start()""", """			task.Start()""")])
mut("C14", "lastpanic-stringified", "tasklane", [(TL,
 """					tl.lastPanic.Store(&err)""",
 """					if _, ok := err.(error); ok {
						err = fmt.Sprint(err)
					}
					tl.lastPanic.Store(&err)"""),
 (TL, """	"errors"
""", """	"errors"
	"fmt"
""")])
mut("C14", "pending-counts-len-of-blocking-queue", "tasklane", [(TL,
 """	pending += int(tl.blockingTaskCnt.Load())""",
 """	for i := 0; i < tl.laneSize; i++ {
		pending += len(tl.blockingQueueList[i])
	}
	_ = tl.blockingTaskCnt.Load()""")])


# ---- C12 ---------------------------------------------------------------------------------
FL = "util/netutil/filter.go"
mut("C12", "contains-without-rlock", "util/netutil", [(FL,
 """	f.mutex.RLock()
	defer f.mutex.RUnlock()
""", "")])
mut("C12", "mode-published-before-maps-filled", "util/netutil", [(FL,
 """			f.mode = modeMaps
			for i := 0; i < len(f.ipMaps); i++ {
				f.ipMaps[i] = make(map[uint32]bool)
			}
			for i := 0; i < f.index; i++ {
				if f.ipList[i][1] > 0 {
					f.ipMaps[f.ipList[i][1]-1][f.ipList[i][0]] = true
				}
			}
			f.ipMaps[ones-1][nip&ipv4Masks[ones-1]] = true""",
 """			var maps [32]map[uint32]bool
			for i := 0; i < len(maps); i++ {
				maps[i] = make(map[uint32]bool)
			}
			f.ipMaps = maps
			f.mode = modeMaps
			f.mutex.Unlock()
			f.mutex.Lock()
			for i := 0; i < f.index; i++ {
				if f.ipList[i][1] > 0 {
					f.ipMaps[f.ipList[i][1]-1][f.ipList[i][0]] = true
				}
			}
			f.ipMaps[ones-1][nip&ipv4Masks[ones-1]] = true""")])
mut("C12", "matchall-plain-bool", "util/netutil", [(FL,
 """	matchAll *atomic.Bool""", """	matchAll *plainBool"""),
 (FL, """func NewIPv4Filter() *IPv4Filter {
	return &IPv4Filter{matchAll: &atomic.Bool{}, mode: modeList, index: 0}
}""", """type plainBool struct{ v bool }

func (b *plainBool) Load() bool   { return b.v }
func (b *plainBool) Store(v bool) { b.v = v }

var _ atomic.Bool

func NewIPv4Filter() *IPv4Filter {
	return &IPv4Filter{matchAll: &plainBool{}, mode: modeList, index: 0}
}""")])
mut("C12", "remove-takes-rlock", "util/netutil", [(FL,
 """	nip := binary.BigEndian.Uint32(cidr.IP)

	f.mutex.Lock()
	defer f.mutex.Unlock()
	if f.mode == modeList {
		for i := 0; i < f.index; i++ {
			if uint32(ones)""",
 """	nip := binary.BigEndian.Uint32(cidr.IP)

	f.mutex.RLock()
	defer f.mutex.RUnlock()
	if f.mode == modeList {
		for i := 0; i < f.index; i++ {
			if uint32(ones)""")])
mut("C12", "lockfree-fastpath-on-stale-mode", "util/netutil", [(FL,
 """	nip := binary.BigEndian.Uint32(ip)

	f.mutex.RLock()
	defer f.mutex.RUnlock()
	if f.mode == modeList {""",
 """	nip := binary.BigEndian.Uint32(ip)

	if f.index == 0 {
		return false
	}
	f.mutex.RLock()
	defer f.mutex.RUnlock()
	if f.mode == modeList {""")])


def run(cmd, cwd=None, timeout=900, repo=None):
    env = dict(ENV)
    if repo:
        env["VERIF_REPO"] = repo
    try:
        p = subprocess.run(cmd, cwd=cwd, env=env, stdout=subprocess.PIPE, stderr=subprocess.STDOUT, timeout=timeout, text=True, errors="replace")
        return p.returncode, p.stdout
    except subprocess.TimeoutExpired as e:
        return 124, (e.stdout or "") + "\nTIMEOUT"

def main():
    sel = sys.argv[1:]
    rows = []
    for prop, name, pkg, edits, expect in M:
        full = prop + "-" + name
        if sel and not any(s in full for s in sel):
            continue
        d = "/tmp/mut-" + full
        shutil.rmtree(d, ignore_errors=True)
        shutil.copytree("/repo", d, ignore=shutil.ignore_patterns(".git"))
        ok = True
        for f, old, new in edits:
            p = os.path.join(d, f)
            s = open(p, encoding="utf-8").read()
            if s.count(old) != 1:
                print("!! %s: pattern occurs %d times in %s" % (full, s.count(old), f)); ok = False; break
            open(p, "w", encoding="utf-8").write(s.replace(old, new))
        if not ok:
            rows.append((full, "PATCH-FAILED", "", "")); shutil.rmtree(d, ignore_errors=True); continue
        rc, out = run(["go", "test", "-count=1", "-timeout", "300s", "./" + pkg + "/"], cwd=d)
        tests = "tests-pass" if rc == 0 else "TESTS-FAIL"
        if rc != 0:
            print(out[-1500:])
        t0 = time.time()
        rc, out = run(["/verif/check", prop, "quick"], cwd="/verif", timeout=1200, repo=d)
        env_out = out
        dt = time.time() - t0
        keys = [l.strip() for l in env_out.splitlines() if l.strip().startswith("key:")][:2]
        verdict = {0: "silent", 1: "caught", 3: "inconclusive", 2: "BROKEN"}.get(rc, "rc=%d" % rc)
        if rc not in (0, 1):
            print(env_out[-2500:])
        good = "ok" if verdict == expect else "UNEXPECTED(want %s)" % expect
        rows.append((full, tests, "%s %s (%.0fs)" % (verdict, good, dt), " | ".join(keys)[:200]))
        print("%-48s %-11s %s  %s" % rows[-1], flush=True)
        shutil.rmtree(d, ignore_errors=True)
        # scratch outputs of that copy
        subprocess.run("rm -rf /verif/.work/*-%s /verif/.bin/*-%s*" % (suffix(d), suffix(d)), shell=True)
    print("\n== summary ==")
    for r in rows:
        print("%-48s %-11s %s" % r[:3])

def suffix(d):
    import hashlib
    return hashlib.md5((d + "\n").encode()).hexdigest()[:10]


if __name__ == "__main__":
    main()
