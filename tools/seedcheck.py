#!/usr/bin/env python3
"""Confirms a seeded breaking change and runs the property's check against it.

usage: tools/seedcheck.py <ID> <variant-dir> [quick|thorough] [--keep] [--fast]
(--fast: re-check of an already confirmed variant - skips the clean-copy demo run, go vet and the
unit tests; patch, build, patched demo and the check itself still run)

<variant-dir> holds patch.diff, a demonstration (demo_test.go / *_test.go, or demo/main.go / main.go)
and meta.json. Steps, all on scratch copies of /repo under /tmp (removed afterwards):
  1. clean copy: the demonstration passes
  2. patched copy: builds, vets, the unedited unit tests pass, the demonstration fails
  3. VERIF_REPO=<patched copy> ./check <ID> <tier>  -> expected exit 1
Prints one JSON line with the outcome.
"""
import glob, hashlib, json, os, re, shutil, subprocess, sys

ENV = dict(os.environ, GOFLAGS="-mod=mod", GOPROXY="off", GOSUMDB="off", GOTOOLCHAIN="local")
PKGDIR = {"logger": "logger", "httpd": "httpd", "tasklane": "tasklane", "config": "config", "daemon": "daemon",
          "netutil": "util/netutil", "strutil": "util/strutil", "fsutil": "util/fsutil", "osutil": "util/osutil",
          "ioutil": "util/ioutil", "ansi": "ansi"}

def run(cmd, cwd, timeout=900, env=None):
    try:
        p = subprocess.run(cmd, cwd=cwd, env=env or ENV, stdout=subprocess.PIPE, stderr=subprocess.STDOUT, timeout=timeout, text=True, errors="replace")
        return p.returncode, p.stdout
    except subprocess.TimeoutExpired as e:
        return 124, (e.stdout or "") + "\nTIMEOUT"

def kill_leftovers(*dirs):
    """Kills processes still running from inside a scratch copy (a unit test of a patched copy may
    leave its daemon behind, which would then hold the test's TCP port for every later run)."""
    for pid in os.listdir("/proc"):
        if not pid.isdigit():
            continue
        try:
            cwd = os.readlink("/proc/%s/cwd" % pid)
        except OSError:
            continue
        cwd = cwd.replace(" (deleted)", "")
        if any(cwd == d or cwd.startswith(d + "/") for d in dirs):
            try:
                os.kill(int(pid), 9)
            except OSError:
                pass

def copy_repo(dst):
    shutil.rmtree(dst, ignore_errors=True)
    shutil.copytree("/repo", dst, ignore=shutil.ignore_patterns(".git"))

def find_demo(vdir):
    tests = [f for f in glob.glob(os.path.join(vdir, "**", "*_test.go"), recursive=True)]
    mains = [f for f in glob.glob(os.path.join(vdir, "**", "main.go"), recursive=True)]
    return tests, mains

def run_demo(copy, vdir, meta):
    tests, mains = find_demo(vdir)
    outs = []
    rc_all = 0
    if tests:
        for t in tests:
            src = open(t, encoding="utf-8", errors="replace").read()
            m = re.search(r"^package\s+(\w+)", src, re.M)
            pkg = m.group(1) if m else ""
            base = pkg[:-5] if pkg.endswith("_test") else pkg
            d = meta.get("package_dir") or PKGDIR.get(base)
            if not d:
                # try to find it in the meta text
                mm = re.search(r"(util/\w+|logger|httpd|tasklane|config|daemon)", json.dumps(meta))
                d = mm.group(1) if mm else base
            d = d.strip("./")
            dst = os.path.join(copy, d, "zz_seed_" + os.path.basename(t))
            shutil.copy(t, dst)
            names = re.findall(r"^func (Test\w+)\(", src, re.M)
            if meta.get("demo_test"):  # one shared demo file for several variants: run this variant's test only
                want = [n for n in names if n == meta["demo_test"]]
                if not want:
                    os.remove(dst)
                    continue
                names = want
            pat = "^(" + "|".join(names) + ")$" if names else "."
            rc, out = run(["go", "test", "-count=1", "-timeout", "300s", "-run", pat, "./" + d + "/"], copy, 400)
            os.remove(dst)
            outs.append(out[-1500:])
            rc_all = rc_all or rc
    elif mains:
        m = mains[0]
        dst = os.path.join(copy, "zz_seed_demo")
        shutil.rmtree(dst, ignore_errors=True)
        shutil.copytree(os.path.dirname(m), dst)
        rc, out = run(["go", "run", "./zz_seed_demo"], copy, 400)
        shutil.rmtree(dst, ignore_errors=True)
        outs.append(out[-1500:])
        rc_all = rc
        if "VIOLATED" in out:
            rc_all = rc_all or 1
    else:
        return None, "no demonstration found"
    return rc_all, "\n".join(outs)

def main():
    pid, vdir = sys.argv[1], os.path.abspath(sys.argv[2].rstrip("/"))
    tier = sys.argv[3] if len(sys.argv) > 3 and not sys.argv[3].startswith("--") else "quick"
    keep = "--keep" in sys.argv
    fast = "--fast" in sys.argv
    meta = {}
    try:
        meta = json.load(open(os.path.join(vdir, "meta.json")))
    except Exception as e:
        pass
    tag = pid + "-" + os.path.basename(vdir)
    clean, patched = "/tmp/sv-clean-" + tag, "/tmp/sv-" + tag
    res = {"property": pid, "variant": os.path.basename(vdir), "tier": tier}
    if fast:
        res["fast"] = True
        res["demo_passes_clean"] = bool(meta.get("confirmed_by_me", {}).get("demo_passes_without_patch"))
    else:
        copy_repo(clean)
        rc, out = run_demo(clean, vdir, meta)
        res["demo_passes_clean"] = (rc == 0)
        if rc != 0:
            res["demo_clean_output"] = (out or "")[-800:]
        kill_leftovers(clean)
        shutil.rmtree(clean, ignore_errors=True)
    copy_repo(patched)
    rc, out = run(["patch", "-p1", "--no-backup-if-mismatch", "-i", os.path.join(vdir, "patch.diff")], patched)
    res["patch_applies"] = (rc == 0)
    if rc != 0:
        res["patch_output"] = out[-500:]
        print(json.dumps(res)); shutil.rmtree(patched, ignore_errors=True); return
    rc, out = run(["go", "build", "./..."], patched)
    if fast:
        res["builds"] = (rc == 0)
        res["unit_tests_pass"] = bool(meta.get("confirmed_by_me", {}).get("unit_tests_pass_with_patch"))
    else:
        rc2, out2 = run(["go", "vet", "./..."], patched)
        res["builds"] = (rc == 0 and rc2 == 0)
        rc, out = run(["go", "test", "-vet=off", "-count=1", "-timeout", "600s", "./..."], patched, 900)
        fails = [l for l in out.splitlines() if l.startswith("--- FAIL")]
        fails = [l for l in fails if "TestWaitForInterrupt" not in l and "TestWaitForStop" not in l]
        res["unit_tests_pass"] = (rc == 0) or not fails and "FAIL\t" in out and all("osutil" in l for l in out.splitlines() if l.startswith("FAIL\t"))
        if not res["unit_tests_pass"]:
            res["unit_test_fails"] = fails[:5]
    rc, out = run_demo(patched, vdir, meta)
    res["demo_fails_patched"] = (rc not in (0, None))
    env = dict(ENV, VERIF_REPO=patched)
    check_pid = meta.get("check_with", pid)  # a change filed under one property may be decided by another one's check
    res["checked_with"] = check_pid
    rc, out = run(["/verif/check", check_pid, tier], "/verif", 3000, env)
    res["check_exit"] = rc
    res["check_keys"] = [l.strip()[5:205] for l in out.splitlines() if l.strip().startswith("key:")][:3]
    res["check_summary"] = [l[:200] for l in out.splitlines() if l.startswith("[" + check_pid) or l.startswith("INCONCLUSIVE") or l.startswith("BROKEN")][:3]
    kill_leftovers(clean, patched)
    if not keep:
        shutil.rmtree(patched, ignore_errors=True)
        suf = hashlib.md5((patched + "\n").encode()).hexdigest()[:10]
        subprocess.run("rm -rf /verif/.work/*-%s /verif/.bin/*-%s*" % (suf, suf), shell=True)
    print(json.dumps(res))

if __name__ == "__main__":
    main()
