#!/bin/bash
# Runs every seeded breaking change under /verif/seeded through tools/seedcheck.py (quick tier)
# and prints one line per variant. usage: tools/seedsweep.sh [parallel] [seed] [--fast]
cd "$(dirname "$0")/.."
par=${1:-4}
export VERIF_SEED=${2:-1}
export SEEDCHECK_FLAGS=${3:-}
mkdir -p .work/seedsweep
ls -d seeded/C*/* | xargs -P "$par" -I{} sh -c 'id=$(echo {} | cut -d/ -f2); v=$(echo {} | cut -d/ -f3); tools/seedcheck.py $id {} quick $SEEDCHECK_FLAGS > .work/seedsweep/$id-$v.json 2>&1'
python3 - <<'PY'
import json, glob
rows = []
for f in sorted(glob.glob('.work/seedsweep/*.json')):
    try:
        d = json.load(open(f))
    except Exception as e:
        rows.append((f, 'unreadable', '', '')); continue
    ok = d.get('patch_applies') and d.get('builds') and d.get('demo_passes_clean') and d.get('demo_fails_patched')
    verdict = {0: 'MISSED', 1: 'caught', 2: 'BROKEN', 3: 'inconclusive'}.get(d.get('check_exit'), str(d.get('check_exit')))
    rows.append((d['property'] + '/' + d['variant'], 'confirmed' if ok else 'demo/patch?', 'tests-pass' if d.get('unit_tests_pass') else 'tests-FAIL(' + ';'.join(d.get('unit_test_fails', []))[:40] + ')', verdict + ' ' + (d.get('check_keys') or [''])[0][:110]))
for r in rows:
    print('%-7s %-12s %-12s %s' % r)
PY
